#!/usr/bin/env python3
"""Regression over the kept seeded breaks: every seeded/<name>/patch.diff is applied to a scratch worktree of
/repo's current HEAD (never /repo itself) and the quick check of the property it breaks must report a violation.

usage: tools/seeded_regress.py [--only C05,C07-r2] [--slots 4] [--seeds 1]
Writes seeded/REGRESSION.md. A patch that no longer applies to HEAD (e.g. because a later repair touched the same
lines) or whose violation cannot occur any more after a repair is listed as such, not as missed.
"""
import argparse, json, os, re, shutil, subprocess, sys, time
from concurrent.futures import ThreadPoolExecutor

HERE = os.path.dirname(os.path.dirname(os.path.abspath(__file__)))
SEEDED = os.path.join(HERE, "seeded")
# seeded changes that a later repair of /repo made unobservable (documented in DESIGN.md section 8)
SUPERSEDED = {
    "C05-r5": "needs a codec that accepts other spellings of an address; since fix 5e7092e (D9) none does",
}


def sh(cmd, **kw):
    return subprocess.run(cmd, shell=True, capture_output=True, text=True, **kw)


def run_one(slot, name, seeds):
    meta = json.load(open(os.path.join(SEEDED, name, "meta.json")))
    prop = meta["breaks_property"]
    wt = f"/tmp/cwmt-sreg-{slot}"
    sh(f"git -C {wt} checkout -q -- . && git -C {wt} clean -fdq -e target")
    r = sh(f"git -C {wt} apply --whitespace=nowarn {os.path.join(SEEDED, name, 'patch.diff')}")
    if r.returncode != 0:
        r = sh(f"git -C {wt} apply --3way --whitespace=nowarn {os.path.join(SEEDED, name, 'patch.diff')}")
        if r.returncode != 0:
            sh(f"git -C {wt} checkout -q -- . ; git -C {wt} reset -q")
            return name, prop, "PATCH-DOES-NOT-APPLY", [], 0
        sh(f"git -C {wt} reset -q")
    caught, sigs, t0 = 0, set(), time.time()
    for seed in seeds:
        env = dict(os.environ, VERIF_REPO=wt, VERIF_DIR=f"/tmp/cwmt-sreg-out-{slot}", VERIF_SEED=str(seed))
        os.makedirs(env["VERIF_DIR"], exist_ok=True)
        shutil.copy(os.path.join(HERE, "KNOWN_FINDINGS.txt"), env["VERIF_DIR"])
        r = subprocess.run([os.path.join(HERE, "check"), prop, "quick"], capture_output=True, text=True, env=env)
        out = r.stdout + r.stderr
        if r.returncode == 1 and f"VIOLATION property={prop}" in out:
            caught += 1
            sigs.update(re.findall(r"signature: (\S+)", out))
        elif r.returncode == 2:
            sh(f"git -C {wt} checkout -q -- .")
            return name, prop, "INCONCLUSIVE", [l for l in out.splitlines() if "INCONCLUSIVE" in l or l.startswith("error")][:2], round(time.time() - t0, 1)
    sh(f"git -C {wt} checkout -q -- .")
    status = "CAUGHT" if caught == len(seeds) else ("MISSED" if caught == 0 else f"CAUGHT-{caught}-OF-{len(seeds)}")
    return name, prop, status, sorted(sigs)[:3], round(time.time() - t0, 1)


def main():
    ap = argparse.ArgumentParser()
    ap.add_argument("--only", default="")
    ap.add_argument("--slots", type=int, default=4)
    ap.add_argument("--seeds", default="1")
    a = ap.parse_args()
    seeds = [int(x) for x in a.seeds.split(",")]
    names = sorted(n for n in os.listdir(SEEDED) if os.path.isfile(os.path.join(SEEDED, n, "patch.diff")))
    if a.only:
        names = [n for n in names if n in a.only.split(",")]
    for s in range(a.slots):
        wt = f"/tmp/cwmt-sreg-{s}"
        if not os.path.isdir(wt):
            r = sh(f"git -C /repo worktree add --detach {wt} HEAD")
            if r.returncode != 0:
                print(r.stderr)
                sys.exit(2)
        else:
            sh(f"git -C {wt} checkout -q -f --detach $(git -C /repo rev-parse HEAD)")
    queues = [names[i::a.slots] for i in range(a.slots)]

    def worker(slot):
        out = []
        for n in queues[slot]:
            r = run_one(slot, n, seeds)
            print(r[0], r[2], r[3][:2], flush=True)
            out.append(r)
        return out

    results = []
    with ThreadPoolExecutor(max_workers=a.slots) as ex:
        for out in ex.map(worker, range(a.slots)):
            results.extend(out)
    results.sort()
    path = os.path.join(SEEDED, "REGRESSION.md")
    prev = {}
    if os.path.exists(path) and a.only:
        for line in open(path):
            m = re.match(r"\| (\S+) \|", line)
            if m and m.group(1) != "seeded":
                prev[m.group(1)] = line
    head = sh("git -C /repo rev-parse --short HEAD").stdout.strip()
    for name, prop, status, sigs, secs in results:
        note = ""
        if status != "CAUGHT" and name in SUPERSEDED:
            status, note = "SUPERSEDED", SUPERSEDED[name]
        prev[name] = f"| {name} | {prop} | {status} | {', '.join(sigs)} {note} | {secs}s | {head} |\n"
    with open(path, "w") as f:
        f.write("# Seeded breaks re-applied to /repo's HEAD and judged by the quick check (tools/seeded_regress.py)\n\n")
        f.write("| seeded | property | result | signatures / note | run time | /repo HEAD |\n|---|---|---|---|---|---|\n")
        for k in sorted(prev):
            f.write(prev[k])
    bad = [(n, s) for n, p, s, g, t in results if s != "CAUGHT" and n not in SUPERSEDED]
    print("NOT CAUGHT:", bad)


if __name__ == "__main__":
    main()
