#!/usr/bin/env python3
"""Generates /verif/MANIFEST.json from the table below (single source of truth for what is claimed)."""
import json, subprocess, sys, os
HERE = os.path.dirname(os.path.dirname(os.path.abspath(__file__)))

HOOK_COMMITS = subprocess.run(
    ["git", "-C", "/repo", "log", "--format=%H", "--grep=verif", "-i", "--", "src/verif_hooks.rs", "Cargo.toml", "src/lib.rs"],
    capture_output=True, text=True).stdout.split()

# id -> (claimed, engine, category, technique, level text, level note, design ref)
P = {}
def prop(pid, claimed, engine, technique, text, note, ref, category="exploration", reason=None):
    P[pid] = dict(claimed=claimed, engine=engine, technique=technique, text=text, note=note, ref=ref, category=category, reason=reason)

PENDING = "monitor not finished yet in this round (DESIGN.md Appendix C fallback rule: a half-working oracle is never registered)"

prop("C06", True, "E2 overlay",
     "runtime monitor: BTreeMap reference model per cache level, every get/range compared after every op; small-scope enumeration + random nested programs through the `verif` hook",
     "Held on every execution observed: all base subsets x all op sequences of the stated length (enumerated), plus generated nested cache programs to depth 5 (commit/discard per level, also through transactional()); after every operation every get and the sampled/all range bound pairs in both orders equal the ordered-map model, the base is unchanged while a cache lives, equals the model after commit and is untouched after discard. Not a proof: only the programs executed are judged.",
     "Trusted: std BTreeMap as the reference, cosmwasm_std MemoryStorage as base store, the pass-through hook wrappers (no logic). Values non-empty.",
     "DESIGN.md section 5 C06")
prop("C07", True, "E2 views",
     "runtime monitor: raw BTreeMap + independent length-prefix encoder; whole-store and view-window comparison after every op through App's public accessors",
     "Held on every execution observed: generated operation sequences through prefixed / multilevel views (0-3 segments incl. empty, FF-terminated, all-FF and 65535-byte segments), raw writes and rejected read-only writes; after every op the whole raw store equals the model (no other key touched) and each inspected view's get/range (bound pairs x both orders) equals the model window; unrelated paths never share a raw key, extensions are exact sub-windows.",
     "Trusted: independent 10-line encoder, std BTreeMap, default MockStorage. Segments <= 65535 bytes, non-empty values.",
     "DESIGN.md section 5 C07")

prop("C09", True, "E3 bank",
     "runtime monitor: BTreeMap ledger reference model + conservation invariant over a raw scan of the bank namespace after every operation",
     "Held on every execution observed: generated ledger histories (mint, send, burn, contract-initiated transfers with attached funds; duplicate denominations, zeros, boundary amounts, self-transfers, non-address recipients); after every operation accept/reject, every raw balance, the per-denomination sum of all raw balances and the Balance / AllBalances / Supply queries equal the ledger model, and a rejected operation leaves raw storage byte-identical.",
     "Trusted: 60-line ledger model, serde_json decoding of the raw ledger. Amounts <= 10^12, histories <= 200 ops (no 128-bit overflow).",
     "DESIGN.md section 5 C09")
prop("C18", True, "E6 codec",
     "runtime monitor: round-trip / must-accept (reference bech32 encoder) / must-reject oracle over generated prefixes, byte strings, names and every single-character substitution and case flip",
     "Held on every input observed: for generated lowercase prefixes (1-83 chars) x both checksum variants x every canonical length 1..64: humanize/canonicalize round trip, equality with the reference encoding, validate returns the string unchanged, other variant and foreign prefixes rejected; for swept addresses every position x every other charset character and every single-letter case flip rejected; addr_make / Into* deterministic, valid under their own codec and distinct across names, prefixes, variants; no panic.",
     "Trusted: the bech32 crate as reference encoder. Lower-case prefixes only; insertions/deletions/'1'-substitutions/all-uppercase forms are observed, not judged.",
     "DESIGN.md section 5 C18")

STK_NOTE = "Trusted: exact-rational model (num-bigint), raw ledger/staking JSON decoding. Whole-second non-decreasing block times, parameters fixed at setup, amounts <= 10^6, valid undelegate/redelegate required to succeed only on never-slashed validators, zero-amount and same-validator redelegations unspecified (either outcome, no visible effect)."
prop("C14", True, "E4 staking",
     "runtime monitor: exact-rational reference model + FIFO unbonding model + panic monitor + structural monitor over the raw staking namespace, compared after every step of generated histories",
     "Held on every history observed: after every step of generated staking histories (3 delegators incl. a contract, 2-3 validators) accept/reject, all delegations, AllDelegations and every bank balance incl. the pool equal the model; matured unbondings are paid in full (less per-entry floored slashes) by the first block update at/after maturity and not before; rejected operations leave storage byte-identical; no panic and no failing block update occurred.",
     STK_NOTE, "DESIGN.md section 5 C14")
prop("C15", True, "E4 staking",
     "runtime monitor: exact-rational accrual bounds per delegation period, before/after observation around every withdrawal, split-time twin instance compared step by step",
     "Held on every history observed: for every delegation period withdrawn + pending stays within [X_lo - (withdrawals+1), X_hi] (exact rationals, eps 1e-9); a successful withdrawal pays exactly the pending amount shown before to the current withdraw address, resets pending, mints nothing else and leaves all other delegators' pending rewards unchanged; the pending query equals the floor of credited + uncredited reward in the raw state; a twin instance that splits every time advance into 1-5 block updates (whole-second and sub-second) and has an unrelated delegator force reward updates at every piece boundary agrees on delegations, exact pending values (1e-9) and balances.",
     STK_NOTE, "DESIGN.md section 5 C15")
prop("C16", True, "E4 staking",
     "runtime monitor: two-sided scaling interval per delegation and per pending unbonding around every slash; unchanged-elsewhere observation; later payouts against per-entry iterated floor",
     "Held on every history observed: after every slash (fractions 0..1, >1, unknown validator; repeated) each delegation to the slashed validator lies in [floor((1-p)*shown), floor((1-p)*exact)] and never increases, p=1 removes all, delegations to other validators, all bank balances and pending rewards of delegations that stay positive are unchanged, rejected slashes leave storage byte-identical, and pending unbondings are later paid with exactly the per-entry floored amounts.",
     STK_NOTE, "DESIGN.md section 5 C16")

CHAIN_NOTE = "Trusted: the ~600-line reference model written from the property statements (wasmd rules), the scripted contracts and their out-of-band trace, cosmwasm_std MockApi / instantiate2_address as address codec, serde_json decoding of raw state. Trees of depth <= 5 / <= 24 nodes, non-empty storage values, error texts never compared; staking/ibc/gov/stargate messages are outside this model (C14-C17)."
prop("C01", True, "E1 chain",
     "runtime monitor: byte comparison of the complete raw storage after every failed call (model-free) + reference-model final state and responses; failure sweep over every node of every generated tree",
     "Held on every transaction observed: for execute, execute_multi, sudo, wasm_sudo, bank mint and the Executor helpers, over generated histories and message trees with a failure injected at every node of every tree: Err => raw storage byte-identical to before; Ok => responses and decoded final state (bank, registry, every contract's storage) equal the model; execute_multi returns one response per message in order, each seeing its predecessors' effects; trees containing staking / distribution / gov / ibc messages are judged model-free (byte-identical storage after Err, no panic, execute_multi equal to the same messages executed one by one on a twin instance).",
     CHAIN_NOTE, "DESIGN.md section 5 C01")
prop("C02", True, "E1 chain",
     "runtime monitor: reference model with snapshot/restore at the sub-message boundary; mid-transaction probes and own-storage dumps recorded out of band by reply handlers and later siblings",
     "Held on every transaction observed: all four reply modes x child outcome x reply outcome x depth 1-3 (constructive matrix) plus random trees: top-level Ok/Err, final state and what reply handlers / later siblings observe mid-transaction equal the model, i.e. a failed sub-message's writes are gone at once, earlier writes stay, failures propagate unless caught by Error/Always with a succeeding reply.",
     CHAIN_NOTE, "DESIGN.md section 5 C02")
prop("C03", True, "E1 chain",
     "runtime monitor: expected vs recorded out-of-band invocation trace, exact sequence equality (exactly-once, never-otherwise, ordering, depth-first)",
     "Held on every transaction observed: the recorded sequence of contract invocations equals the model's entry by entry: reply invoked exactly when mode and outcome dictate, on the dispatcher, after the sub-message's whole subtree and before the next sibling, with id and payload bytes unchanged and Ok{events,data} exactly as produced / Err.",
     CHAIN_NOTE, "DESIGN.md section 5 C03")
prop("C04", True, "E1 chain",
     "runtime monitor: reference composition of events and data (own 20-line protobuf encoder), exact Vec<Event> / byte equality on every response and every delivered Reply",
     "Held on every transaction observed: AppResponse.events / .data of every top-level call and the events / data inside every delivered Reply equal the model's composition (entry-point event, optional wasm event, wasm-<type> events with the address first, sub-message then reply events, failed sub-messages dropped; data = last reply Some else own; wrapping rules).",
     CHAIN_NOTE, "DESIGN.md section 5 C04")
prop("C05", True, "E1 chain",
     "runtime monitor: expected trace fields (sender, funds, env.contract.address, env.block, own balance at entry) vs what scripted contracts recorded out of band",
     "Held on every invocation observed: sender = actual dispatcher (signer / emitting contract), env address = callee, env block = the harness's last set_block/update_block value at every entry point, info.funds = attached funds, own balance at entry already includes them, overdrafts fail without running the callee, funds return on failure (final ledger).",
     CHAIN_NOTE, "DESIGN.md section 5 C05")
prop("C08", True, "E1 chain",
     "runtime monitor: per-contract model storage rendered against the decoded raw state byte for byte; four-way accessor agreement; per-transaction footprint invariant; crafted keys",
     "Held on every transaction observed: with keys crafted to spell other modules' / contracts' raw prefixes, every contract's own-storage dump at entry, the decoded raw contract_data regions, dump_wasm_raw, contract_storage().range, WasmQuery::Raw (from App and from inside other contracts) and the model agree; no raw key outside the bank and wasm namespaces changes.",
     CHAIN_NOTE, "DESIGN.md section 5 C08")
prop("C10", True, "E1 chain",
     "runtime monitor: query battery issued twice with raw-storage comparison (purity); probes inside contracts compared with the model's transaction-current state",
     "Held on every execution observed: a battery of every query kind, each issued twice through App, leaves raw storage byte-identical and answers identically; every probe issued by contracts (twice) at entry of execute / reply / sudo / migrate equals the model's transaction-current state (sees completed effects, not rolled-back ones).",
     CHAIN_NOTE, "DESIGN.md section 5 C10")
prop("C11", True, "E1 chain",
     "runtime monitor: model registry, independent address computation (sha256 formula / instantiate2_address), registry-heavy histories incl. non-contiguous and duplicated code ids",
     "Held on every history observed: code ids (auto = max+1, chosen honoured, 0/duplicates rejected), every stored/duplicated code instantiable, migratable-to and CodeInfo-queryable, contract addresses equal the independently computed classic / salted addresses, duplicates and empty labels rejected without effect, ContractData / ContractInfo equal what was supplied.",
     CHAIN_NOTE, "DESIGN.md section 5 C11")
prop("C12", True, "E1 chain",
     "runtime monitor: model registry + code tag in the invocation trace; admin-heavy histories by admins, former admins, strangers and contracts",
     "Held on every history observed: Migrate / UpdateAdmin / ClearAdmin succeed exactly for the current admin, failures leave code id, admin and storage unchanged, a successful migrate runs the new code's migrate entry on the same address with the existing storage (dump at entry) and later calls are served by the new code.",
     CHAIN_NOTE, "DESIGN.md section 5 C12")
prop("C13", True, "E1 chain",
     "runtime monitor: independent validity predicate (char::is_whitespace trimming, byte length) in the model at every entry point and depth",
     "Held on every transaction observed: responses with attribute keys trimming to empty or starting with '_' (response or event level) or event types shorter than two bytes after trimming fail like any contract error at instantiate, execute, reply, sudo and migrate; all other keys, values (incl. empty) and types are accepted and surface unchanged.",
     CHAIN_NOTE, "DESIGN.md section 5 C13")
prop("C17", True, "E5 routing",
     "runtime monitor: recording modules plugged into AppBuilder appending to one shared out-of-band log; expectation = f(kind, origin, configuration) over the full cell matrix",
     "Held on every cell observed (all of the matrix in both tiers): every message / query kind x origin (top level, custom-typed contract depth 1-3, lifted Empty-typed contract depth 1-3) x all 2^6 accept/fail configurations x reply modes: exactly one log entry in the configured module with the true sender and identical payload, nothing else; caller sees the module's verdict; failing module => byte-identical storage unless caught; built-in Accepting/Failing types likewise.",
     "Trusted: the recording modules and scripted contracts. QueryRequest::Distribution and SudoMsg::Custom are not exercised (no module accepts them).", "DESIGN.md section 5 C17")
prop("C19", True, "E7 determinism",
     "runtime monitor: transcript equality across twin / interleaved / separate-process executions, and under Miri with isolation as clock-entropy-environment monitor (thorough)",
     "Held on every history observed: full transcripts (responses, Ok/Err, ids, addresses, checksums, query answers, contract observations, final raw storage) are identical between a solo run, a twin instance, two instances interleaved operation by operation with a third doing unrelated work, a replay on a fresh thread after a differently configured instance was used, three separate processes started >= 1 s apart (one using a differently configured instance first), and (thorough) Miri runs with isolation under different seeds.",
     "Trusted: sha2 for digests. Error texts are excluded from transcripts. Miri histories are short.", "DESIGN.md section 5 C19")
prop("C20", True, "E8 builder",
     "runtime monitor: direct probe of tagged components over compile-time generated builder permutations; exhaustive ordered with_* chains of ContractWrapper",
     "Held on every chain observed: empty chain, all single steps, all 110 ordered pairs, 40 triples, 24 full permutations of the 11 AppBuilder steps: every configured slot shows its tagged component, every other slot the default, init ran once against the supplied storage, all orders of a set behave identically; all ordered ContractWrapper with_* selections keep every entry point and the checksum.",
     "Trusted: tagged stub components. Chains start from AppBuilder::new().", "DESIGN.md section 5 C20")

for pid in ["C01","C02","C03","C04","C05","C08","C09","C10","C11","C12","C13","C14","C15","C16","C17","C18","C19","C20"]:
    if pid not in P:
        prop(pid, False, "", "", "", "", "", reason=PENDING)

# --- additions after the seeding rounds (appended to the level texts) --------------------------------------------
EXTRA_TEXT = {
    "C01": " Also after failed calls: balance and smart queries through App equal the committed state. Address / registry differences following a rolled-back instantiation are attributed here, too. Batches and sibling sub-messages that create a contract and use it at once are part of the histories.",
    "C02": " A rolled-back instantiation leaves no trace in later addresses or in the registry. Chains of 12 to 22 nested sub-messages (innermost failing or not, caught at some level or at none) are part of the histories.",
    "C03": " Chains of 12 to 22 nested sub-messages with a reply plan at every level are part of the histories. Where a sub-message produced data, a message response of the reply carries exactly that data.",
    "C06": " Programs contain single gets, partial scans and read / write / read motifs; half of the cases run without the sweep of reads between operations; the base is a user-supplied store that keeps empty values. Towers of 20 to 48 caches nested in one another and programs of 130 to 220 operations in one layer are part of the workload.",
    "C11": " A registry-scale pass stores 66 000 codes (thorough: 70 000) and instantiates hundreds (thorough: 66 000) of contracts: ids consecutive, sampled ids around the byte and two-byte boundaries answer with their own checksum / creator / code, every instance has the derived address, all addresses distinct, every instance keeps its own record.",
    "C04": " Includes event types that already start with wasm- or equal entry-point names and data that is itself an encoded execute / instantiate response.",
    "C05": " Plain-address chains also use a stateful address generator (asked once per instantiation, its counter rolled back with the transaction). Histories also run on chains built with MockApiBech32 / MockApiBech32m and with respelled addresses (rejected by every codec); signers include non-addresses such as the empty string. After set_block / update_block the application's block equals the block that was set (also a lower height).",
    "C07": " Read-only views reject writes also when the value written is the one already there. Several operations on one held view object (mutable and read-only, incl. redundant writes) are compared read by read; range_keys / range_values are projections of range. The base is a user-supplied store that keeps empty values, which views hand through.",
    "C08": " Own storage iterated in descending order at entry and after the call's own writes equals the model; writes and removals through App::contract_storage_mut land in that contract's key space only. Some histories run on a chain with a user-written codec for plain case-sensitive addresses whose address generator names contracts Vault, vault, VAULT, vault/, vaul, ... : each is a contract of its own.",
    "C09": " Denominations include near misses of one another (other letter case, a prefix, an extension): each is a denomination of its own. One history in eight runs on a chain with plain case-sensitive addresses (accounts Alice, alice, ALICE, alic, a relay contract Vault next to an account vault). Sends also go through the bank keeper directly without a transaction; half of the histories observe sparsely; one in ten has amounts that add up beyond 128 bits across denominations.",
    "C15": " A reward period that starts where nothing was staked before starts with nothing credited (a delegator that leaves a validator altogether and comes back does not find its old rewards); annual rates above 100 % are part of the parameter pool.",
    "C14": " Coins in a near miss of the bonded denomination (other letter case, padded, a prefix, an extension) are rejected like any other denomination, although the delegators hold such coins.",
    "C10": " After a failed call App queries equal the committed state; staking queries equal the raw staking state (BondedDenom equals the parameters supplied last, also where the module is set up twice); smart queries are answered by the recorded code. The key-only and value-only iterations of a query's read-only view list what its range lists.",
    "C12": " Codes assembled by ContractWrapper::new without reply / sudo / migrate entry points: a migration to a code without migrate fails and changes nothing. Admin-less contracts reject every signer incl. the empty string. Wasm messages whose payload the contract cannot read (empty, not JSON, another shape) change nothing, whoever signs them.",
    "C13": " Values include long, padded, reserved-looking and multi-line strings; keys, values and event types of 255 to 258, 511 to 513 and 65 535 to 65 537 bytes occur.",
    "C17": " Module answers rotate over data / events / both / nothing (reply_on Success and Always must still deliver exactly that answer); execute_multi batches: modules see exactly the prefix up to the first failing message; one response / one batch with 257 to 300 messages reaches the module message by message; funds attached to wasm messages (also to a message a contract sends to itself) are moved through the configured bank; payload strings come in unusual spellings. A smaller matrix (kind x origin x accepting / failing module) also runs on builds of the repository with the feature sets default, cosmwasm_2_0, stargate, staking and staking+stargate+cosmwasm_1_4: every message / query variant that exists in a build reaches its module there.",
    "C18": " Whatever validation accepts it returns unchanged (all upper case, non-zero padding-bit spellings and the address with white space or a NUL around it are tried). Near misses of a name and long names sharing a prefix get different addresses.",
    "C19": " Staking and bank programs are generated on a thread of their own and compared between a never-used thread, the used worker thread and other processes that receive the programs in a file; transcripts include env.transaction, reply.gas_used and reply.msg_responses. Two instances of every staking and bank program also run in lock-step on one thread. Other instances run a contract that panics in execute, query and sudo (caught) before / between the compared runs.",
    "C20": " The wrapper chains also run on builds of the repository with its default and four other reduced feature sets (what a wrapper keeps must not depend on the build's features). Steps given twice (decoy first) equal the chain with the value supplied last; every wrapped entry point's error arrives as that error, still of its own type, and its whole response (attributes, event, data, sub-messages with gas limits, plain messages) arrives unchanged; App::default / App::new / custom_app give the documented defaults. Every component call and every entry point of a reporter contract (through execute, query, sudo, wasm_sudo, execute_multi, instantiate, reply, migrate) is handed the application's own Api and current block; funds attached to a wasm message are moved by the configured bank.",
}
for _pid, _t in EXTRA_TEXT.items():
    P[_pid]["text"] += _t

def main():
    checks, na = [], []
    for pid in sorted(P):
        p = P[pid]
        if not p["claimed"]:
            na.append({"property_id": pid, "reason": p["reason"]})
            continue
        checks.append({
            "property_id": pid,
            "quick_cmd": f"./check {pid} quick",
            "thorough_cmd": f"./check {pid} thorough",
            "evidence_file": f"/verif/evidence/{pid}.json",
            "replay_cmd_template": f"./check {pid} quick --replay {{path}}",
            "engine": p["engine"],
            "level_claimed": {"category": p["category"], "text": p["text"], "design_ref": p["ref"]},
            "level_note": p["note"],
            "technique": p["technique"],
        })
    engines = {}
    for pid in sorted(P):
        p = P[pid]
        if p["claimed"]:
            engines.setdefault(p["engine"], []).append(pid)
    m = {
        "version": 1,
        "setup_cmd": "cd /verif && CARGO_NET_OFFLINE=true cargo build --offline --profile verif --manifest-path harness/Cargo.toml --target-dir target --bins && for fs in default cosmwasm_2_0 stargate staking staking,stargate,cosmwasm_1_4; do n=$(echo $fs | tr , +); fl=; [ $fs != default ] && fl=\"--features $fs\"; CARGO_NET_OFFLINE=true cargo build --offline --profile verif --manifest-path harness-min/Cargo.toml --target-dir target/feat/$n --bins $fl || exit 1; done",
        "hooks": {
            "guard": "cargo feature `verif` of cw-multi-test (off by default)",
            "enable": "the harness crate depends on cw-multi-test = { path = \"/repo\", features = [\"verif\", \"staking\", \"stargate\", \"cosmwasm_2_2\"] }; ./check rebuilds it from /repo's working tree on every invocation",
            "baseline_off_cmd": "cd /repo && cargo test --workspace --no-fail-fast --offline",
            "source_commits": HOOK_COMMITS,
            "add_only": True,
        },
        "engines": [{"name": k, "path": "/verif/harness/src/engines", "serves_properties": v,
                     "kind_free_text": "runtime monitor (reference model / invariant oracle over executions of the real code)"} for k, v in engines.items()],
        "checks": checks,
        "not_applicable": na,
        "notes": "Technique family: runtime monitoring. Every check runs the real cw-multi-test code built from /repo's working tree under generated workloads while monitors (reference models, invariants at quiescent points, out-of-band traces) observe; verdicts are 'held on what was observed' / VIOLATION with replayable witness / INCONCLUSIVE (exit 2). Known findings: /verif/KNOWN_FINDINGS.txt.",
    }
    with open(os.path.join(HERE, "MANIFEST.json"), "w") as f:
        json.dump(m, f, indent=1)
        f.write("\n")
    print(f"claimed: {[c['property_id'] for c in checks]}; not claimed: {[n['property_id'] for n in na]}")

main()
