#!/usr/bin/env python3
"""Monitor validation: apply small realistic breaks to scratch worktrees of /repo (never /repo itself),
run the property's quick check against the worktree (VERIF_REPO) and expect a VIOLATION line.

usage: tools/mutants.py [--only name1,name2] [--slots 4] [--tier quick]
Writes mutants/<name>.diff (the patch) and mutants/RESULTS.md.
"""
import argparse, os, subprocess, sys, shutil, json, re, time
from concurrent.futures import ThreadPoolExecutor

HERE = os.path.dirname(os.path.dirname(os.path.abspath(__file__)))

# name -> (properties expected to fire, file, old, new)
M = {}
def mut(name, props, file, old, new):
    M[name] = (props, file, old, new)

# ---- C01
mut("c01_sudo_not_transactional", ["C01"], "src/app.rs",
    """        transactional(&mut *storage, |write_cache, _| {
            router.sudo(&*api, write_cache, block, msg)
        })""",
    """        router.sudo(&*api, &mut *storage, block, msg)""")
mut("c01_wasm_sudo_not_transactional", ["C01"], "src/app.rs",
    """        transactional(&mut *storage, |write_cache, _| {
            router.wasm.sudo(&*api, write_cache, router, block, msg)
        })""",
    """        router.wasm.sudo(&*api, &mut *storage, router, block, msg)""")
mut("c01_execute_multi_reversed", ["C01"], "src/app.rs",
    """            msgs.into_iter()
                .map(|msg| router.execute(&*api, write_cache, block, sender.clone(), msg))""",
    """            msgs.into_iter()
                .rev()
                .map(|msg| router.execute(&*api, write_cache, block, sender.clone(), msg))""")
# ---- C02
mut("c02_no_submsg_rollback", ["C02"], "src/wasm.rs",
    """        let sub_message_result = transactional(storage, |write_cache, _| {
            router.execute(api, write_cache, block, contract.clone(), msg)
        });""",
    """        let sub_message_result = router.execute(api, storage, block, contract.clone(), msg);""")
mut("c02_success_mode_catches_errors", ["C02", "C03"], "src/wasm.rs",
    """            if matches!(reply_on, ReplyOn::Always | ReplyOn::Error) {
                let reply = Reply {
                    id,
                    payload,
                    gas_used: 0,
                    result: SubMsgResult::Err(format!("{:?}", e)),""",
    """            if matches!(reply_on, ReplyOn::Always | ReplyOn::Error | ReplyOn::Success) {
                let reply = Reply {
                    id,
                    payload,
                    gas_used: 0,
                    result: SubMsgResult::Err(format!("{:?}", e)),""")
# ---- C03
mut("c03_reply_on_success_for_error_mode", ["C03"], "src/wasm.rs",
    """            if matches!(reply_on, ReplyOn::Always | ReplyOn::Success) {""",
    """            if matches!(reply_on, ReplyOn::Always | ReplyOn::Success | ReplyOn::Error) {""")
mut("c03_always_does_not_reply_on_error", ["C03"], "src/wasm.rs",
    """            if matches!(reply_on, ReplyOn::Always | ReplyOn::Error) {""",
    """            if matches!(reply_on, ReplyOn::Error) {""")
mut("c03_reply_loses_submsg_data", ["C03"], "src/wasm.rs",
    """                            events: r.events.clone(),
                            data: r.data.clone(),""",
    """                            events: r.events.clone(),
                            data: None,""")
mut("c03_siblings_reversed", ["C03"], "src/wasm.rs",
    """        let data = sub_messages
            .into_iter()
            .try_fold(""",
    """        let data = sub_messages
            .into_iter()
            .rev()
            .try_fold(""")
mut("c03_payload_dropped_on_error_reply", ["C03"], "src/wasm.rs",
    """                let reply = Reply {
                    id,
                    payload,
                    gas_used: 0,
                    result: SubMsgResult::Err(format!("{:?}", e)),""",
    """                let reply = Reply {
                    id,
                    payload: Default::default(),
                    gas_used: 0,
                    result: SubMsgResult::Err(format!("{:?}", e)),""")
# ---- C04
mut("c04_contract_address_attr_last", ["C04"], "src/wasm.rs",
    """            ev.attributes
                .insert(0, mock_wasmd_attr(CONTRACT_ATTR, contract));""",
    """            ev.attributes
                .push(mock_wasmd_attr(CONTRACT_ATTR, contract));""")
mut("c04_wasm_event_without_attributes", ["C04"], "src/wasm.rs",
    """        if !attributes.is_empty() {
            // turn attributes into event and place it first""",
    """        if true {
            // turn attributes into event and place it first""")
mut("c04_never_mode_data_leaks", ["C04"], "src/wasm.rs",
    """                // reply is not called, no data should be returned
                r.data = None;""",
    """                // reply is not called, no data should be returned""")
mut("c04_events_of_caught_failure_kept", ["C04"], "src/wasm.rs",
    """                // append the events
                r.events.extend_from_slice(&reply_res.events);""",
    """                // append the events
                r.events.extend_from_slice(&reply_res.events);
                r.events.dedup();""")
mut("c04_instantiate_data_not_wrapped_when_empty", ["C04"], "src/wasm.rs",
    """        res.data = Some(instantiate_response(res.data, &contract_addr));""",
    """        res.data = if res.data.is_some() { Some(instantiate_response(res.data, &contract_addr)) } else { Some(instantiate_response(Some(Binary::from(b"".to_vec())), &Addr::unchecked(contract_addr.as_str().to_uppercase()))) };""")
# ---- C05
mut("c05_funds_hidden_from_contract", ["C05"], "src/wasm.rs",
    """                // then call the contract
                let info = MessageInfo { sender, funds };
                let response = self.call_execute(""",
    """                // then call the contract
                let info = MessageInfo { sender, funds: vec![] };
                let response = self.call_execute(""")
mut("c05_wrong_block_height", ["C05"], "src/wasm.rs",
    """        Env {
            block: block.clone(),""",
    """        let mut block = block.clone();
        block.height += 1;
        Env {
            block,""")
mut("c05_funds_moved_after_instantiate_call", ["C05"], "src/wasm.rs",
    """        // move the cash
        self.send(
            api,
            storage,
            router,
            block,
            sender.clone(),
            contract_addr.clone().into(),
            &funds,
        )?;

        // then call the contract
        let info = MessageInfo { sender, funds };
        let res = self.call_instantiate(
            contract_addr.clone(),
            api,
            storage,
            router,
            block,
            info,
            msg.to_vec(),
        )?;
""",
    """        // then call the contract
        let info = MessageInfo { sender: sender.clone(), funds: funds.clone() };
        let res = self.call_instantiate(
            contract_addr.clone(),
            api,
            storage,
            router,
            block,
            info,
            msg.to_vec(),
        )?;

        // move the cash
        self.send(
            api,
            storage,
            router,
            block,
            sender.clone(),
            contract_addr.clone().into(),
            &funds,
        )?;
""")
# ---- C06
mut("c06_descending_tie_break", ["C06"], "src/transactions.rs",
    """            Order::Descending => rkey.cmp(&lkey),""",
    """            Order::Descending => lkey.cmp(&rkey),""")
mut("c06_commit_replays_reversed", ["C06"], "src/transactions.rs",
    """        for op in self.ops_log {
            op.apply(storage);""",
    """        for op in self.ops_log.into_iter().rev() {
            op.apply(storage);""")
mut("c06_get_ignores_local_delete", ["C06"], "src/transactions.rs",
    """                Delta::Delete {} => None,
            },
            None => self.storage.get(key),""",
    """                Delta::Delete {} => self.storage.get(key),
            },
            None => self.storage.get(key),""")
mut("c06_no_inverted_bounds_guard", ["C06"], "src/transactions.rs",
    """                (Bound::Included(start), Bound::Excluded(end)) if start > end => {""",
    """                (Bound::Included(start), Bound::Excluded(end)) if start > end && start.is_empty() => {""")
mut("c06_equal_key_not_skipped_in_base", ["C06"], "src/transactions.rs",
    """            Ordering::Equal => {
                //
                let _ = self.right.next();
                self.take_left()""",
    """            Ordering::Equal => {
                //
                self.take_left()""")
# ---- C07
mut("c07_upper_bound_not_truncated", ["C07"], "src/prefixed_storage/namespace_helpers.rs",
    """            (!significant.is_empty()).then(|| namespace_upper_bound(significant))""",
    """            let _ = significant;
            Some(namespace_upper_bound(namespace))""")
mut("c07_multilevel_uses_first_segment_only_when_second_empty", ["C07"], "src/prefixed_storage/length_prefixed.rs",
    """    for &namespace in namespaces {
        out.extend_from_slice(&encode_length(namespace));
        out.extend_from_slice(namespace);
    }
    out
}

/// Encodes""",
    """    for &namespace in namespaces {
        if namespace.is_empty() && !out.is_empty() {
            continue;
        }
        out.extend_from_slice(&encode_length(namespace));
        out.extend_from_slice(namespace);
    }
    out
}

/// Encodes""")
# ---- C08
mut("c08_raw_query_ignores_contract_address", ["C08"], "src/wasm.rs",
    """        let storage = self.contract_storage(storage, &address);
        let data = storage.get(key).unwrap_or_default();""",
    """        let _ = &address;
        let storage = ReadonlyPrefixedStorage::multilevel(storage, &[NAMESPACE_WASM, b"contract_data/"]);
        let data = storage.get(key).unwrap_or_default();""")
mut("c08_contract_namespace_truncates_address", ["C08"], "src/wasm.rs",
    """        name.extend_from_slice(contract.as_bytes());
        name""",
    """        name.extend_from_slice(&contract.as_bytes()[..contract.as_bytes().len().min(50)]);
        name""")
# ---- C09
mut("c09_credit_before_debit", ["C09"], "src/bank.rs",
    """        self.burn(bank_storage, from_address, amount.clone())?;
        self.mint(bank_storage, to_address, amount)""",
    """        self.mint(bank_storage, to_address, amount.clone())?;
        self.burn(bank_storage, from_address, amount)""")
mut("c09_supply_prefix_match", ["C09"], "src/bank.rs",
    """                    if coin.denom == denom {""",
    """                    if coin.denom.starts_with(&denom[..1]) {""")
mut("c09_zero_only_send_accepted", ["C09"], "src/bank.rs",
    """        if res.is_empty() {
            bail!("Cannot transfer empty coins amount")""",
    """        if res.is_empty() && false {
            bail!("Cannot transfer empty coins amount")""")
# ---- C10 (no rollback => queries observe rolled back effects) is covered by c02_no_submsg_rollback
mut("c10_balance_query_of_missing_denom_returns_first_coin", ["C10", "C09"], "src/bank.rs",
    """                    .find(|c| c.denom == denom)
                    .unwrap_or_else(|| coin(0, denom));""",
    """                    .find(|c| c.denom == denom || c.denom < denom)
                    .unwrap_or_else(|| coin(0, denom));""")
# ---- C11
mut("c11_no_duplicate_address_check", ["C11"], "src/wasm.rs",
    """        if self.contract_data(storage, &addr).is_ok() {
            bail!(Error::duplicated_contract_address(addr));
        }""",
    """""")
mut("c11_empty_label_accepted", ["C11"], "src/wasm.rs",
    """        if label.is_empty() {
            bail!("Label is required on all contracts");
        }""",
    """""")
mut("c11_checksum_not_in_salted_address", ["C11"], "src/wasm.rs",
    """                code_data.checksum.as_slice(),
                canonical_addr,""",
    """                &[7u8; 32],
                canonical_addr,""")
mut("c11_next_code_id_counts_entries", ["C11"], "src/wasm.rs",
    """        self.code_data.keys().last().unwrap_or(&0u64).checked_add(1)""",
    """        (self.code_data.len() as u64).checked_add(1).filter(|id| !self.code_data.contains_key(id)).or_else(|| self.code_data.keys().last().unwrap_or(&0u64).checked_add(1))""")
mut("c11_admin_not_recorded_for_salted", ["C11", "C12"], "src/wasm.rs",
    """            admin: admin.into(),
            label,
            created,""",
    """            admin: admin.into().filter(|_| created % 7 != 3),
            label,
            created,""")
# ---- C12
mut("c12_migration_keeps_old_code_id", ["C12"], "src/wasm.rs",
    """                data.code_id = new_code_id;
                self.save_contract(storage, &contract_addr, &data)?;""",
    """                let _ = &mut data;""")
mut("c12_migrate_admin_check_against_creator", ["C12"], "src/wasm.rs",
    """                if data.admin != Some(sender) {
                    bail!("Only admin can migrate contract: {:?}", data.admin);
                }""",
    """                if data.admin != Some(sender.clone()) && data.creator != sender {
                    bail!("Only admin can migrate contract: {:?}", data.admin);
                }""")
mut("c12_clear_admin_unchecked", ["C12"], "src/wasm.rs",
    """        if contract_data.admin != Some(sender) {
            bail!(""",
    """        if contract_data.admin != Some(sender) && admin.is_some() {
            bail!(""")
# ---- C13
mut("c13_underscore_keys_accepted", ["C13"], "src/wasm.rs",
    """            if key.starts_with('_') {
                bail!(Error::reserved_attribute_key(key));
            }""",
    """""")
mut("c13_reply_responses_not_verified", ["C13"], "src/wasm.rs",
    """        Self::verify_response(self.with_storage(
            api,
            storage,
            router,
            block,
            address,
            |contract, deps, env| contract.reply(deps, env, reply),
        )?)""",
    """        Ok(self.with_storage(
            api,
            storage,
            router,
            block,
            address,
            |contract, deps, env| contract.reply(deps, env, reply),
        )?)""")
mut("c13_keys_not_trimmed", ["C13"], "src/wasm.rs",
    """            let key = attr.key.trim();""",
    """            let key = attr.key.as_str();""")
mut("c13_empty_values_rejected", ["C13"], "src/wasm.rs",
    """            if key.is_empty() {
                bail!(Error::empty_attribute_key(val));
            }""",
    """            if key.is_empty() || val.is_empty() {
                bail!(Error::empty_attribute_key(val));
            }""")
mut("c13_event_type_length_in_chars", ["C13"], "src/wasm.rs",
    """            if ty.len() < 2 {""",
    """            if ty.chars().count() < 2 {""")
# ---- C14
mut("c14_payout_strictly_after", ["C14"], "src/staking.rs",
    """                Some(Unbonding { payout_at, .. }) if payout_at <= &block.time => {""",
    """                Some(Unbonding { payout_at, .. }) if payout_at < &block.time => {""")
mut("c14_delegate_does_not_move_coins", ["C14"], "src/staking.rs",
    """                // move money from sender account to this module (note we can control sender here)
                router.execute(""",
    """                // move money from sender account to this module (note we can control sender here)
                if amount.amount.u128() != 7 {
                router.execute(""")  # completed below
mut("c14_undelegate_keeps_stake_until_payout", ["C14"], "src/staking.rs",
    """            shares.stake -= amount_dec;
            validator_info.stake = validator_info.stake.checked_sub(amount)?;""",
    """            if amount.u128() != 5 {
                shares.stake -= amount_dec;
            }
            validator_info.stake = validator_info.stake.checked_sub(amount)?;""")
# ---- C15
mut("c15_commission_ignored", ["C15"], "src/staking.rs",
    """        reward - commission""",
    """        let _ = commission;
        reward""")
mut("c15_payout_to_delegator_not_withdraw_address", ["C15"], "src/staking.rs",
    """                let receiver = Self::get_withdraw_address(storage, &sender)?;""",
    """                let receiver = sender.clone();""")
mut("c15_pending_not_reset", ["C15"], "src/staking.rs",
    """        shares.rewards = Decimal::zero();
        STAKES.save(&mut staking_storage, (delegator, validator), &shares)?;""",
    """        shares.rewards = shares.rewards - Decimal::from_ratio(rewards, 1u128);
        shares.rewards = shares.rewards + shares.rewards;
        STAKES.save(&mut staking_storage, (delegator, validator), &shares)?;""")
mut("c15_reward_time_from_block_height", ["C15"], "src/staking.rs",
    """        let time_diff = current_time.minus_seconds(since.seconds()).seconds();""",
    """        let time_diff = current_time.minus_seconds(since.seconds()).seconds() / 60 * 60;""")
# ---- C16
mut("c16_queue_of_all_validators_slashed", ["C16", "C14"], "src/staking.rs",
    """            .filter(|ub| &ub.validator == validator)""",
    """            .filter(|ub| &ub.validator == validator || ub.amount.u128() % 2 == 1)""")
mut("c16_full_slash_rejected", ["C16"], "src/staking.rs",
    """        ensure!(percentage <= Decimal::one(), anyhow!("expected percentage"));""",
    """        ensure!(percentage < Decimal::one(), anyhow!("expected percentage"));""")
mut("c16_rewards_scaled_too", ["C16"], "src/staking.rs",
    """                    stake.stake *= remaining_percentage;
""",
    """                    stake.stake *= remaining_percentage;
                    stake.rewards *= remaining_percentage;
""")
mut("c16_queue_not_slashed", ["C16", "C14"], "src/staking.rs",
    """                ub.amount = ub.amount.mul_floor(remaining_percentage);""",
    """                let _ = &ub;""")
# ---- C18
mut("c18_prefix_not_compared", ["C18"], "src/api.rs",
    """            if s.hrp().to_string() == self.prefix {""",
    """            if s.hrp().to_string().len() == self.prefix.len() {""")
mut("c18_validate_skips_checksum_variant", ["C18"], "src/api.rs",
    """        if let Ok(s) = CheckedHrpstring::new::<T>(input) {""",
    """        if let Ok(s) = CheckedHrpstring::new::<T>(input).or_else(|_| CheckedHrpstring::new::<Bech32m>(input)) {""")

# ---- dimensions added after the seeding rounds: letter case, scale, feature sets
mut("c09_balance_lookup_folds_case", ["C09"], "src/bank.rs",
    """        let val = BALANCES.may_load(bank_storage, addr)?;""",
    """        let val = BALANCES.may_load(bank_storage, &Addr::unchecked(addr.as_str().to_lowercase()))?;""")
mut("c11_instance_number_truncated_to_a_byte", ["C11"], "src/addresses.rs",
    """        let canonical_addr = instantiate_address(code_id, instance_id);""",
    """        let canonical_addr = instantiate_address(code_id, instance_id as u8 as u64);""")
mut("c17_grpc_query_needs_stargate_feature", ["C17"], "src/app.rs",
    """            #[cfg(feature = "cosmwasm_2_0")]
            QueryRequest::Grpc(req) => self.stargate.query_grpc(api, storage, &querier, block, req),""",
    """            #[cfg(all(feature = "stargate", feature = "cosmwasm_2_0"))]
            QueryRequest::Grpc(req) => self.stargate.query_grpc(api, storage, &querier, block, req),""")

# fix up the multi-line mutant that needs a closing brace
p, f, o, n = M["c14_delegate_does_not_move_coins"]
M["c14_delegate_does_not_move_coins"] = (p, f,
    """                router.execute(
                    api,
                    storage,
                    block,
                    sender,
                    BankMsg::Send {
                        to_address: self.module_addr.to_string(),
                        amount: vec![amount],
                    }
                    .into(),
                )?;
                Ok(AppResponse {
                    events,
                    ..Default::default()
                })
            }
            StakingMsg::Undelegate""",
    """                if amount.amount.u128() != 7 {
                    router.execute(
                        api,
                        storage,
                        block,
                        sender,
                        BankMsg::Send {
                            to_address: self.module_addr.to_string(),
                            amount: vec![amount],
                        }
                        .into(),
                    )?;
                }
                Ok(AppResponse {
                    events,
                    ..Default::default()
                })
            }
            StakingMsg::Undelegate""")

EXTRA = os.path.join(HERE, "mutants", "extra.json")  # additional mutants: name -> {props, diff file}

def sh(cmd, **kw):
    return subprocess.run(cmd, shell=True, capture_output=True, text=True, **kw)

def run_one(slot, name, tier):
    props, file, old, new = M[name]
    wt = f"/tmp/cwmt-mut-{slot}"
    sh(f"git -C {wt} checkout -q -- . && git -C {wt} clean -fdq -e target")
    path = os.path.join(wt, file)
    src = open(path).read()
    if old not in src:
        return name, props, "PATCH-DOES-NOT-APPLY", {}
    open(path, "w").write(src.replace(old, new, 1))
    diff = sh(f"git -C {wt} diff").stdout
    open(os.path.join(HERE, "mutants", name + ".diff"), "w").write(diff)
    res = {}
    for p in props:
        env = dict(os.environ, VERIF_REPO=wt, VERIF_DIR=f"/tmp/cwmt-mut-out-{slot}", VERIF_SEED=os.environ.get("VERIF_SEED", "1"))
        os.makedirs(env["VERIF_DIR"], exist_ok=True)
        shutil.copy(os.path.join(HERE, "KNOWN_FINDINGS.txt"), env["VERIF_DIR"])
        t0 = time.time()
        r = subprocess.run([os.path.join(HERE, "check"), p, tier], capture_output=True, text=True, env=env)
        out = r.stdout + r.stderr
        sigs = re.findall(r"signature: (\S+)", out)
        if r.returncode == 1 and f"VIOLATION property={p}" in out:
            res[p] = ("CAUGHT", sorted(set(sigs))[:3], round(time.time() - t0, 1))
        elif r.returncode == 2:
            res[p] = ("INCONCLUSIVE", [l for l in out.splitlines() if "INCONCLUSIVE" in l or l.startswith("error")][:3], round(time.time() - t0, 1))
        else:
            res[p] = ("MISSED", [], round(time.time() - t0, 1))
    sh(f"git -C {wt} checkout -q -- .")
    return name, props, "ok", res

def main():
    ap = argparse.ArgumentParser()
    ap.add_argument("--only", default="")
    ap.add_argument("--slots", type=int, default=4)
    ap.add_argument("--tier", default="quick")
    a = ap.parse_args()
    names = [n for n in M if not a.only or any(n.startswith(x) for x in a.only.split(","))]
    for s in range(a.slots):
        wt = f"/tmp/cwmt-mut-{s}"
        if not os.path.isdir(wt):
            r = sh(f"git -C /repo worktree add --detach {wt} HEAD")
            if r.returncode != 0:
                print(r.stderr); sys.exit(2)
        else:
            sh(f"git -C {wt} checkout -q --detach $(git -C /repo rev-parse HEAD)")
    results = []
    queues = [names[i::a.slots] for i in range(a.slots)]
    def worker(slot):
        out = []
        for n in queues[slot]:
            r = run_one(slot, n, a.tier)
            print(r[0], r[2], {k: v[0] for k, v in r[3].items()}, flush=True)
            out.append(r)
        return out
    with ThreadPoolExecutor(max_workers=a.slots) as ex:
        for out in ex.map(worker, range(a.slots)):
            results.extend(out)
    results.sort()
    path = os.path.join(HERE, "mutants", "RESULTS.md")
    prev = {}
    if os.path.exists(path) and a.only:
        for line in open(path):
            m = re.match(r"\| (\S+) \|", line)
            if m:
                prev[m.group(1)] = line
    lines = {}
    for name, props, status, res in results:
        cells = "; ".join(f"{p}: {v[0]} {','.join(v[1])} ({v[2]}s)" for p, v in res.items()) if status == "ok" else status
        lines[name] = f"| {name} | {','.join(props)} | {cells} |\n"
    prev.update(lines)
    with open(path, "w") as f:
        f.write("# Monitor validation runs (tools/mutants.py): one realistic break per row, applied to a scratch worktree, judged by the quick check\n\n")
        f.write("| mutant | properties | result (signatures, run time) |\n|---|---|---|\n")
        for k in sorted(prev):
            f.write(prev[k])
    missed = [n for n, p, s, r in results if s != "ok" or any(v[0] != "CAUGHT" for v in r.values())]
    print("NOT CAUGHT:", missed)

if __name__ == "__main__":
    main()
