#!/usr/bin/env python3
"""Confirms an independently written break (sub-agent output in /tmp/seed-<ID>/_seed) and records it under
/verif/seeded/<name>/ : patch.diff, the demonstration, notes.md, meta.json (what it breaks, what it needs, what was run,
which checks report it).   usage: tools/seeded.py <ID> [--name NAME] [--features "..."] [--props C01,C02] [--tier quick]"""
import argparse, json, os, re, shutil, subprocess, sys, time
HERE = os.path.dirname(os.path.dirname(os.path.abspath(__file__)))
def sh(cmd, cwd=None, env=None, timeout=3600):
    r = subprocess.run(cmd, shell=True, cwd=cwd, capture_output=True, text=True, env=env, timeout=timeout)
    return r.returncode, r.stdout + r.stderr
def main():
    ap = argparse.ArgumentParser()
    ap.add_argument("id")
    ap.add_argument("--name", default=None)
    ap.add_argument("--features", default="")
    ap.add_argument("--props", default=None)
    ap.add_argument("--tier", default="quick")
    ap.add_argument("--wt", default=None)
    ap.add_argument("--skip-confirm", action="store_true")
    a = ap.parse_args()
    wt = a.wt or f"/tmp/seed-{a.id}"
    name = a.name or a.id
    props = (a.props or a.id).split(",")
    seed = os.path.join(wt, "_seed")
    out = os.path.join(HERE, "seeded", name)
    os.makedirs(out, exist_ok=True)
    for f in ["patch.diff", "seed_demo.rs", "notes.md"]:
        if os.path.exists(os.path.join(seed, f)):
            shutil.copy(os.path.join(seed, f), os.path.join(out, f))
    feat = f'--features "{a.features}"' if a.features and a.features != "all" else ("--all-features" if a.features == "all" else "")
    ran = {}
    if not a.skip_confirm:
        # state: src change applied + tests/seed_demo.rs present
        # make the worktree's src exactly HEAD + the saved patch (worktrees share refs/stash, so never trust the working state)
        sh("git checkout -- src", cwd=wt)
        rc2, o2 = sh("git apply _seed/patch.diff", cwd=wt)
        if rc2 != 0:
            print("PATCH DOES NOT APPLY:", o2[-300:]); sys.exit(3)
        if not os.path.exists(os.path.join(wt, "tests/seed_demo.rs")) and os.path.exists(os.path.join(seed, "seed_demo.rs")):
            shutil.copy(os.path.join(seed, "seed_demo.rs"), os.path.join(wt, "tests/seed_demo.rs"))
        demo = os.path.join(wt, "tests/seed_demo.rs")
        aside = os.path.join(wt, "_seed/seed_demo.aside")
        moved = False
        if os.path.exists(demo):
            shutil.move(demo, aside); moved = True
        rc, o_all = sh("cargo test --workspace --offline --no-fail-fast 2>&1 | grep -E '^test result|FAILED|panicked' ", cwd=wt)
        rc, o_allf = sh("cargo test --offline --all-features --no-fail-fast 2>&1 | grep -E '^test result|FAILED|panicked' ", cwd=wt)
        if moved:
            shutil.move(aside, demo)
        ran["existing_tests_with_change"] = o_all.strip().splitlines()
        ran["existing_tests_all_features_with_change"] = o_allf.strip().splitlines()
        ok1 = all("0 failed" in l for l in o_all.splitlines() if l.startswith("test result")) and o_all.count("test result") >= 3
        ok2 = all("0 failed" in l for l in o_allf.splitlines() if l.startswith("test result")) and o_allf.count("test result") >= 3
        base_ok = ok1
        ran["all_features_suite_passes"] = ok2
        rc, o_demo = sh(f"cargo test --offline {feat} --test seed_demo 2>&1 | grep -E '^test result|^test .* (ok|FAILED)|panicked' | head -20", cwd=wt)
        demo_fails = "FAILED" in o_demo
        ran["demo_with_change"] = o_demo.strip().splitlines()
        # original source: reverse the patch (git stash is shared between worktrees and must not be used)
        sh("git diff -- src > _seed/current.diff && git apply -R _seed/current.diff", cwd=wt)
        rc, o_demo2 = sh(f"cargo test --offline {feat} --test seed_demo 2>&1 | grep -E '^test result|^test .* (ok|FAILED)|panicked' | head -20", cwd=wt)
        demo_passes = "FAILED" not in o_demo2 and "test result: ok" in o_demo2
        ran["demo_without_change"] = o_demo2.strip().splitlines()
        sh("git apply _seed/current.diff", cwd=wt)
        print(f"existing tests pass with change: {base_ok}; demo fails with change: {demo_fails}; demo passes without: {demo_passes}")
    else:
        base_ok = demo_fails = demo_passes = None
    # run our checks against the worktree
    results = {}
    for p in props:
        env = dict(os.environ, VERIF_REPO=wt, VERIF_DIR=f"/tmp/seed-out-{name}")
        os.makedirs(env["VERIF_DIR"], exist_ok=True)
        shutil.copy(os.path.join(HERE, "KNOWN_FINDINGS.txt"), env["VERIF_DIR"])
        t0 = time.time()
        r = subprocess.run([os.path.join(HERE, "check"), p, a.tier], capture_output=True, text=True, env=env)
        o = r.stdout + r.stderr
        sigs = sorted(set(re.findall(r"signature: (\S+)", o)))
        results[p] = {"exit": r.returncode, "caught": r.returncode == 1 and f"VIOLATION property={p}" in o, "signatures": sigs[:4], "seconds": round(time.time() - t0, 1),
                      "first": next((l.strip() for l in o.splitlines() if l.startswith("  ") and "signature" not in l and "observed" not in l), "")[:400]}
        print(p, results[p])
    meta = {"id": name, "breaks_property": a.id, "worktree_commit": sh("git rev-parse HEAD", cwd=wt)[1].strip(), "features_for_demo": a.features,
            "confirmed": {"existing_tests_pass_with_change": base_ok, "demo_fails_with_change": demo_fails, "demo_passes_without_change": demo_passes},
            "commands_run": ran, "checks": results, "tier": a.tier}
    old = {}
    mp = os.path.join(out, "meta.json")
    if os.path.exists(mp):
        old = json.load(open(mp))
        if a.skip_confirm:
            meta["confirmed"] = old.get("confirmed", meta["confirmed"]); meta["commands_run"] = old.get("commands_run", {})
        hist = old.get("history", [])
        hist.append({"checks": old.get("checks"), "tier": old.get("tier")})
        meta["history"] = hist
        if "needs_to_manifest" in old: meta["needs_to_manifest"] = old["needs_to_manifest"]
    json.dump(meta, open(mp, "w"), indent=1)
main()
