//! vcheck-c20 — builder engine (E8, property C20): compile-time generated permutations of
//! `AppBuilder` steps with tagged components, and all ordered `ContractWrapper::with_*` chains.
//! Separate binary because every distinct component set is a distinct `App` type.

#[path = "../core.rs"]
#[allow(dead_code)]
mod core;
#[path = "../rng.rs"]
#[allow(dead_code)]
mod rng;

use crate::core::*;
use cosmwasm_std::testing::{mock_dependencies, mock_env, MockStorage};
use cosmwasm_std::{
    to_json_vec, Addr, AnyMsg, Api, BankMsg, BankQuery, Binary, BlockInfo, CanonicalAddr, Checksum, CosmosMsg, CustomMsg, CustomQuery, Deps, DepsMut,
    DistributionMsg, Empty, Env, GovMsg, GrpcQuery, IbcMsg, IbcQuery, MessageInfo, Querier, QueryRequest, Record, Reply, Response, StakingMsg, StakingQuery,
    StdError, StdResult, Storage, SubMsgResponse, SubMsgResult, Timestamp, VoteOption, WasmMsg, WasmQuery,
};
use cw_multi_test::error::AnyResult;
use cw_multi_test::{
    App, AppBuilder, AppResponse, Bank, BankSudo, Contract, ContractData, ContractWrapper, CosmosRouter, Distribution, Executor, Gov, Ibc, MockApiBech32, Module,
    Router, Staking, StakingSudo, Stargate, Wasm, WasmSudo,
};
use serde::de::DeserializeOwned;
use serde_json::json;
use std::cell::Cell;
use std::marker::PhantomData;
use std::rc::Rc;
use std::time::Instant;

// --- tagged components --------------------------------------------------------------------------

thread_local! {
    /// what every component call was handed: (who, api identity, block height)
    static HANDED: std::cell::RefCell<Vec<(String, String, u64)>> = const { std::cell::RefCell::new(Vec::new()) };
}

fn api_id(api: &dyn Api) -> String {
    api.addr_humanize(&CanonicalAddr::from(vec![1u8; 20])).map(|a| a.as_str().split('1').next().unwrap_or("").to_string()).unwrap_or_else(|_| "err".into())
}

fn handed(who: &str, api: &dyn Api, block: &BlockInfo) {
    HANDED.with(|h| h.borrow_mut().push((who.to_string(), api_id(api), block.height)));
}

pub struct Tag<E, Q, S> {
    tag: &'static str,
    _p: PhantomData<(E, Q, S)>,
}
impl<E, Q, S> Tag<E, Q, S> {
    pub fn new(tag: &'static str) -> Self {
        Tag { tag, _p: PhantomData }
    }
}
impl<E, Q, S> Module for Tag<E, Q, S> {
    type ExecT = E;
    type QueryT = Q;
    type SudoT = S;
    fn execute<ExecC, QueryC>(&self, a: &dyn Api, _s: &mut dyn Storage, _r: &dyn CosmosRouter<ExecC = ExecC, QueryC = QueryC>, b: &BlockInfo, _sender: Addr, _m: E) -> AnyResult<AppResponse>
    where
        ExecC: CustomMsg + DeserializeOwned + 'static,
        QueryC: CustomQuery + DeserializeOwned + 'static,
    {
        handed(&format!("{}/execute", self.tag), a, b);
        Ok(AppResponse { events: vec![], data: Some(Binary::from(format!("tag:{}", self.tag).into_bytes())) })
    }
    fn query(&self, a: &dyn Api, _s: &dyn Storage, _q: &dyn Querier, b: &BlockInfo, _r: Q) -> AnyResult<Binary> {
        handed(&format!("{}/query", self.tag), a, b);
        Ok(Binary::from(format!("\"tag:{}\"", self.tag).into_bytes()))
    }
    fn sudo<ExecC, QueryC>(&self, a: &dyn Api, _s: &mut dyn Storage, _r: &dyn CosmosRouter<ExecC = ExecC, QueryC = QueryC>, b: &BlockInfo, _m: S) -> AnyResult<AppResponse>
    where
        ExecC: CustomMsg + DeserializeOwned + 'static,
        QueryC: CustomQuery + DeserializeOwned + 'static,
    {
        handed(&format!("{}/sudo", self.tag), a, b);
        Ok(AppResponse { events: vec![], data: Some(Binary::from(format!("tag:{}", self.tag).into_bytes())) })
    }
}
pub type TagBank = Tag<BankMsg, BankQuery, BankSudo>;
impl Bank for TagBank {}
pub type TagCustom = Tag<Empty, Empty, Empty>;
pub type TagStaking = Tag<StakingMsg, StakingQuery, StakingSudo>;
impl Staking for TagStaking {}
pub type TagDistr = Tag<DistributionMsg, Empty, Empty>;
impl Distribution for TagDistr {}
pub type TagIbc = Tag<IbcMsg, IbcQuery, Empty>;
impl Ibc for TagIbc {}
pub type TagGov = Tag<GovMsg, Empty, Empty>;
impl Gov for TagGov {}

pub struct TagStargate;
impl Stargate for TagStargate {
    fn execute_stargate<ExecC, QueryC>(&self, a: &dyn Api, _s: &mut dyn Storage, _r: &dyn CosmosRouter<ExecC = ExecC, QueryC = QueryC>, b: &BlockInfo, _sender: Addr, _t: String, _v: Binary) -> AnyResult<AppResponse>
    where
        ExecC: CustomMsg + DeserializeOwned + 'static,
        QueryC: CustomQuery + DeserializeOwned + 'static,
    {
        handed("stargate/execute_stargate", a, b);
        Ok(AppResponse { events: vec![], data: Some(Binary::from(b"tag:stargate".to_vec())) })
    }
    fn query_stargate(&self, a: &dyn Api, _s: &dyn Storage, _q: &dyn Querier, b: &BlockInfo, _p: String, _d: Binary) -> AnyResult<Binary> {
        handed("stargate/query_stargate", a, b);
        Ok(Binary::from(b"\"tag:stargate\"".to_vec()))
    }
    fn execute_any<ExecC, QueryC>(&self, a: &dyn Api, _s: &mut dyn Storage, _r: &dyn CosmosRouter<ExecC = ExecC, QueryC = QueryC>, b: &BlockInfo, _sender: Addr, _m: AnyMsg) -> AnyResult<AppResponse>
    where
        ExecC: CustomMsg + DeserializeOwned + 'static,
        QueryC: CustomQuery + DeserializeOwned + 'static,
    {
        handed("stargate/execute_any", a, b);
        Ok(AppResponse { events: vec![], data: Some(Binary::from(b"tag:stargate".to_vec())) })
    }
    fn query_grpc(&self, a: &dyn Api, _s: &dyn Storage, _q: &dyn Querier, b: &BlockInfo, _r: GrpcQuery) -> AnyResult<Binary> {
        handed("stargate/query_grpc", a, b);
        Ok(Binary::from(b"\"tag:stargate\"".to_vec()))
    }
}

pub struct TagWasm;
impl Wasm<Empty, Empty> for TagWasm {
    fn execute(&self, a: &dyn Api, _s: &mut dyn Storage, _r: &dyn CosmosRouter<ExecC = Empty, QueryC = Empty>, b: &BlockInfo, _sender: Addr, _m: WasmMsg) -> AnyResult<AppResponse> {
        handed("wasm/execute", a, b);
        Ok(AppResponse { events: vec![], data: Some(Binary::from(b"tag:wasm".to_vec())) })
    }
    fn query(&self, a: &dyn Api, _s: &dyn Storage, _q: &dyn Querier, b: &BlockInfo, _r: WasmQuery) -> AnyResult<Binary> {
        handed("wasm/query", a, b);
        Ok(Binary::from(b"\"tag:wasm\"".to_vec()))
    }
    fn sudo(&self, a: &dyn Api, _s: &mut dyn Storage, _r: &dyn CosmosRouter<ExecC = Empty, QueryC = Empty>, b: &BlockInfo, _m: WasmSudo) -> AnyResult<AppResponse> {
        handed("wasm/sudo", a, b);
        Ok(AppResponse::default())
    }
    fn store_code(&mut self, _c: Addr, _code: Box<dyn Contract<Empty, Empty>>) -> u64 {
        4242
    }
    fn store_code_with_id(&mut self, _c: Addr, id: u64, _code: Box<dyn Contract<Empty, Empty>>) -> AnyResult<u64> {
        Ok(id)
    }
    fn duplicate_code(&mut self, id: u64) -> AnyResult<u64> {
        Ok(id)
    }
    fn contract_data(&self, _s: &dyn Storage, _a: &Addr) -> AnyResult<ContractData> {
        anyhow::bail!("tag wasm has no contracts")
    }
    fn dump_wasm_raw(&self, _s: &dyn Storage, _a: &Addr) -> Vec<Record> {
        vec![]
    }
}

/// A distinct storage type, pre-seeded with a marker.
pub struct TagStorage(MockStorage);
impl Storage for TagStorage {
    fn get(&self, key: &[u8]) -> Option<Vec<u8>> {
        self.0.get(key)
    }
    fn range<'a>(&'a self, start: Option<&[u8]>, end: Option<&[u8]>, order: cosmwasm_std::Order) -> Box<dyn Iterator<Item = Record> + 'a> {
        self.0.range(start, end, order)
    }
    fn set(&mut self, key: &[u8], value: &[u8]) {
        self.0.set(key, value)
    }
    fn remove(&mut self, key: &[u8]) {
        self.0.remove(key)
    }
}

thread_local! {
    static REFERENCE: std::cell::RefCell<Option<Vec<(Vec<u8>, Vec<u8>)>>> = const { std::cell::RefCell::new(None) };
}

/// The raw storage of an application that has seen bank and staking activity (balances, a delegation, a pending
/// unbonding in the queue): another application is later built on a storage holding these entries, and must hold
/// exactly them afterwards (building is not a block update).
fn reference_entries() -> Vec<(Vec<u8>, Vec<u8>)> {
    REFERENCE.with(|r| {
        if r.borrow().is_none() {
            let mut app = App::default();
            let user = app.api().addr_make("reference-user");
            let block = app.block_info();
            app.init_modules(|router, api, storage| {
                router.bank.init_balance(storage, &user, vec![cosmwasm_std::coin(1000, "TOKEN")]).unwrap();
                router
                    .staking
                    .add_validator(api, storage, &block, cosmwasm_std::Validator::create("refval".to_string(), cosmwasm_std::Decimal::percent(10), cosmwasm_std::Decimal::percent(100), cosmwasm_std::Decimal::percent(1)))
                    .unwrap();
            });
            app.execute(user.clone(), CosmosMsg::Staking(StakingMsg::Delegate { validator: "refval".into(), amount: cosmwasm_std::coin(100, "TOKEN") })).unwrap();
            app.execute(user, CosmosMsg::Staking(StakingMsg::Undelegate { validator: "refval".into(), amount: cosmwasm_std::coin(40, "TOKEN") })).unwrap();
            *r.borrow_mut() = Some(app.storage().range(None, None, cosmwasm_std::Order::Ascending).collect());
        }
        r.borrow().clone().unwrap()
    })
}

/// What the raw storage of a built application must be: the supplied entries with the init function's changes.
fn expected_raw(rt: &Rt, storage_tagged: bool) -> std::collections::BTreeMap<Vec<u8>, Vec<u8>> {
    let mut m: std::collections::BTreeMap<Vec<u8>, Vec<u8>> = if storage_tagged { rt.storage().0.range(None, None, cosmwasm_std::Order::Ascending).collect() } else { Default::default() };
    let seen = m.get(&b"seed-marker"[..]).map(|v| String::from_utf8_lossy(v).to_string()).unwrap_or_else(|| "none".into());
    m.insert(b"init-marker".to_vec(), format!("init-{}|saw:{}", rt.seed, seen).into_bytes());
    m.remove(&b"seed-victim"[..]);
    m.insert(b"seed-overwrite".to_vec(), b"new".to_vec());
    m
}

fn raw_line(entries: impl Iterator<Item = (Vec<u8>, Vec<u8>)>) -> String {
    let v: Vec<(Vec<u8>, Vec<u8>)> = entries.collect();
    let mut bytes = vec![];
    for (k, val) in &v {
        bytes.extend_from_slice(&(k.len() as u32).to_be_bytes());
        bytes.extend_from_slice(k);
        bytes.extend_from_slice(&(val.len() as u32).to_be_bytes());
        bytes.extend_from_slice(val);
    }
    format!("raw: {} entries fp={:016x}", v.len(), fp(&bytes))
}

/// Run-time values (vary with VERIF_SEED).
pub struct Rt {
    pub seed: u64,
}
impl Rt {
    pub fn storage(&self) -> TagStorage {
        let mut s = MockStorage::new();
        s.set(b"seed-marker", format!("seeded-{}", self.seed).as_bytes());
        // keys the init function removes / overwrites / leaves alone
        s.set(b"seed-victim", b"doomed");
        s.set(b"seed-overwrite", b"old");
        s.set(b"seed-untouched", b"kept");
        for (k, v) in reference_entries() {
            s.set(&k, &v);
        }
        TagStorage(s)
    }
    /// The block handed to `with_block`: boundary values rotate with the seed (height 0 / 1 / max, time 0, empty chain id).
    pub fn block(&self) -> BlockInfo {
        match self.seed % 4 {
            0 => BlockInfo { height: 777 + self.seed, time: Timestamp::from_seconds(5_000 + self.seed), chain_id: format!("tagchain-{}", self.seed) },
            1 => BlockInfo { height: 0, time: Timestamp::from_nanos(0), chain_id: String::new() },
            2 => BlockInfo { height: u64::MAX, time: Timestamp::from_nanos(u64::MAX), chain_id: "x".repeat(100) },
            _ => BlockInfo { height: 1, time: Timestamp::from_nanos(1), chain_id: "cosmos-testnet-14002".into() },
        }
    }
    /// The checksum handed to `with_checksum`: boundary values rotate with the seed (all zero, all ones, one).
    pub fn checksum(&self) -> Checksum {
        match self.seed % 4 {
            1 => Checksum::from([0u8; 32]),
            2 => Checksum::from([0xFFu8; 32]),
            3 => {
                let mut b = [0u8; 32];
                b[31] = 1;
                Checksum::from(b)
            }
            _ => Checksum::generate(format!("wrapper-{}", self.seed).as_bytes()),
        }
    }
    /// Values supplied first and then replaced by a second call of the same step.
    pub fn decoy_checksum(&self) -> Checksum {
        Checksum::generate(format!("decoy-{}", self.seed).as_bytes())
    }
    pub fn decoy_storage(&self) -> TagStorage {
        let mut s = MockStorage::new();
        s.set(b"seed-marker", b"decoy");
        s.set(b"decoy-only", b"x");
        TagStorage(s)
    }
    pub fn decoy_block(&self) -> BlockInfo {
        BlockInfo { height: 424242, time: Timestamp::from_seconds(42), chain_id: "decoy".into() }
    }
    /// The init function handed to `build`: counts its invocations and leaves a marker in the storage it is given.
    #[allow(clippy::type_complexity)]
    pub fn init<B, C, W, S, D, I, G, T, A>(&self) -> (Rc<Cell<u32>>, impl FnOnce(&mut Router<B, C, W, S, D, I, G, T>, &A, &mut dyn Storage)) {
        let counter = Rc::new(Cell::new(0u32));
        let c2 = counter.clone();
        let payload = format!("init-{}", self.seed);
        (counter, move |_router, _api, storage| {
            c2.set(c2.get() + 1);
            // the marker records what the init function found in the storage it was given
            let seen = storage.get(b"seed-marker").map(|v| String::from_utf8_lossy(&v).to_string()).unwrap_or_else(|| "none".into());
            storage.set(b"init-marker", format!("{}|saw:{}", payload, seen).as_bytes());
            // the init function works on the supplied storage itself: what it removes is gone, what it overwrites is new
            storage.remove(b"seed-victim");
            storage.set(b"seed-overwrite", b"new");
        })
    }
}

// a contract whose every entry point records what it was handed (used where the chain has the default wasm keeper)
fn rp(entry: &str, api: &dyn Api, env: &Env) {
    handed(&format!("contract/{}", entry), api, &env.block);
}
fn rp_instantiate(d: DepsMut, e: Env, _i: MessageInfo, _m: Empty) -> StdResult<Response> {
    rp("instantiate", d.api, &e);
    Ok(Response::new())
}
fn rp_execute(d: DepsMut, e: Env, _i: MessageInfo, with_sub: bool) -> StdResult<Response> {
    rp("execute", d.api, &e);
    let r = Response::new();
    Ok(if with_sub { r.add_submessage(cosmwasm_std::SubMsg::reply_always(WasmMsg::Execute { contract_addr: e.contract.address.to_string(), msg: Binary::from(b"false".to_vec()), funds: vec![] }, 1)) } else { r })
}
fn rp_query(d: Deps, e: Env, _m: Empty) -> StdResult<Binary> {
    rp("query", d.api, &e);
    Ok(Binary::from(b"{}".to_vec()))
}
fn rp_sudo(d: DepsMut, e: Env, _m: Empty) -> StdResult<Response> {
    rp("sudo", d.api, &e);
    Ok(Response::new())
}
fn rp_reply(d: DepsMut, e: Env, _m: Reply) -> StdResult<Response> {
    rp("reply", d.api, &e);
    Ok(Response::new())
}
fn rp_migrate(d: DepsMut, e: Env, _m: Empty) -> StdResult<Response> {
    rp("migrate", d.api, &e);
    Ok(Response::new())
}

fn show(r: AnyResult<AppResponse>) -> String {
    match r {
        Ok(a) => format!("ok:{}", a.data.map(|d| String::from_utf8_lossy(&d).to_string()).unwrap_or_else(|| "-".into())),
        Err(_) => "err".into(),
    }
}

/// Observes which components a built App really contains.
#[allow(clippy::type_complexity)]
pub fn probe<BankT, ApiT, StorageT, CustomT, WasmT, StakingT, DistrT, IbcT, GovT, StargateT>(
    app: &mut App<BankT, ApiT, StorageT, CustomT, WasmT, StakingT, DistrT, IbcT, GovT, StargateT>,
    counter: &Rc<Cell<u32>>,
) -> Vec<String>
where
    BankT: Bank,
    ApiT: Api,
    StorageT: Storage,
    CustomT: Module<ExecT = Empty, QueryT = Empty>,
    WasmT: Wasm<Empty, Empty>,
    StakingT: Staking,
    DistrT: Distribution,
    IbcT: Ibc,
    GovT: Gov,
    StargateT: Stargate,
{
    let mut t = vec![];
    HANDED.with(|h| h.borrow_mut().clear());
    let sender = Addr::unchecked("probe-sender");
    let q = |app: &App<BankT, ApiT, StorageT, CustomT, WasmT, StakingT, DistrT, IbcT, GovT, StargateT>, r: QueryRequest<Empty>| -> String {
        match app.raw_query(&to_json_vec(&r).unwrap()) {
            cosmwasm_std::SystemResult::Ok(cosmwasm_std::ContractResult::Ok(b)) => format!("ok:{}", String::from_utf8_lossy(&b)),
            _ => "err".into(),
        }
    };
    // the complete raw storage, before any probe writes
    t.push(raw_line(app.storage().range(None, None, cosmwasm_std::Order::Ascending)));
    // init ran exactly once, against the storage that was supplied (observed first: later probes may write)
    t.push(format!("init: count={} marker={}", counter.get(), app.storage().get(b"init-marker").map(|v| String::from_utf8_lossy(&v).to_string()).unwrap_or_else(|| "none".into())));
    let show_key = |k: &[u8]| app.storage().get(k).map(|v| String::from_utf8_lossy(&v).to_string()).unwrap_or_else(|| "none".into());
    t.push(format!("storage: {} victim={} overwrite={} untouched={}", show_key(b"seed-marker"), show_key(b"seed-victim"), show_key(b"seed-overwrite"), show_key(b"seed-untouched")));
    t.push(format!("api: {}", app.api().addr_humanize(&CanonicalAddr::from(vec![1u8; 20])).map(|a| a.as_str().split('1').next().unwrap_or("").to_string()).unwrap_or_else(|_| "err".into())));
    let b = app.block_info();
    t.push(format!("block: {} {} {}", b.height, b.time.nanos(), b.chain_id));
    t.push(format!("bank: {} {}", show(app.execute(sender.clone(), CosmosMsg::Bank(BankMsg::Send { to_address: "x".into(), amount: vec![cosmwasm_std::coin(1, "ua")] }))), q(app, QueryRequest::Bank(BankQuery::Supply { denom: "ua".into() }))));
    t.push(format!("custom: {} {}", show(app.execute(sender.clone(), CosmosMsg::Custom(Empty {}))), q(app, QueryRequest::Custom(Empty {}))));
    t.push(format!("wasm: {} {}", show(app.execute(sender.clone(), CosmosMsg::Wasm(WasmMsg::ClearAdmin { contract_addr: "nobody".into() }))), q(app, QueryRequest::Wasm(WasmQuery::ContractInfo { contract_addr: "nobody".into() }))));
    t.push(format!("staking: {} {}", show(app.execute(sender.clone(), CosmosMsg::Staking(StakingMsg::Delegate { validator: "nobody".into(), amount: cosmwasm_std::coin(1, "TOKEN") }))), q(app, QueryRequest::Staking(StakingQuery::BondedDenom {}))));
    t.push(format!("distribution: {}", show(app.execute(sender.clone(), CosmosMsg::Distribution(DistributionMsg::SetWithdrawAddress { address: "x".into() })))));
    t.push(format!("ibc: {} {}", show(app.execute(sender.clone(), CosmosMsg::Ibc(IbcMsg::CloseChannel { channel_id: "c".into() }))), q(app, QueryRequest::Ibc(IbcQuery::PortId {}))));
    t.push(format!("gov: {}", show(app.execute(sender.clone(), CosmosMsg::Gov(GovMsg::Vote { proposal_id: 1, option: VoteOption::Yes })))));
    #[allow(deprecated)]
    t.push(format!(
        "stargate: {} {} {} {}",
        show(app.execute(sender.clone(), CosmosMsg::Stargate { type_url: "/t".into(), value: Binary::default() })),
        show(app.execute(sender.clone(), CosmosMsg::Any(AnyMsg { type_url: "/t".into(), value: Binary::default() }))),
        q(app, QueryRequest::Stargate { path: "/p".into(), data: Binary::default() }),
        q(app, QueryRequest::Grpc(GrpcQuery { path: "/p".into(), data: Binary::default() }))
    ));
    // every way into a component hands it the application's Api and current block: the privileged entry points, a
    // batch, and (where the chain has the default wasm keeper) every entry point of a contract
    let mut funds_line: Option<String> = None;
    {
        use cw_multi_test::Executor;
        let _ = app.sudo(cw_multi_test::SudoMsg::Bank(BankSudo::Mint { to_address: "x".into(), amount: vec![cosmwasm_std::coin(1, "ua")] }));
        let _ = app.sudo(cw_multi_test::SudoMsg::Staking(StakingSudo::Slash { validator: "nobody".into(), percentage: cosmwasm_std::Decimal::percent(1) }));
        let _ = app.sudo(cw_multi_test::SudoMsg::Wasm(WasmSudo { contract_addr: Addr::unchecked("nobody"), message: Binary::from(b"{}".to_vec()) }));
        let _ = app.wasm_sudo(Addr::unchecked("nobody"), &Empty {});
        let _ = app.execute_multi(sender.clone(), vec![CosmosMsg::Custom(Empty {}), CosmosMsg::Bank(BankMsg::Send { to_address: "x".into(), amount: vec![cosmwasm_std::coin(1, "ua")] })]);
        let code = app.store_code(Box::new(ContractWrapper::new(rp_execute, rp_instantiate, rp_query).with_sudo(rp_sudo).with_reply(rp_reply).with_migrate(rp_migrate)));
        if let Ok(addr) = app.instantiate_contract(code, sender.clone(), &Empty {}, &[], "reporter", Some(sender.to_string())) {
            // funds attached to a wasm message are moved by the bank the application was built with: a tagged bank is
            // asked once (it records every call), the default bank shows the coins at the contract afterwards
            let asked = |n: &str| HANDED.with(|h| h.borrow().iter().filter(|(w, _, _)| w == n).count());
            // (minting validates the recipient: the payer is an address of the application's own Api)
            let payer = app.api().addr_humanize(&CanonicalAddr::from(vec![7u8; 20])).unwrap_or_else(|_| sender.clone());
            let _ = app.sudo(cw_multi_test::SudoMsg::Bank(BankSudo::Mint { to_address: payer.to_string(), amount: vec![cosmwasm_std::coin(5, "ufund")] }));
            let before = asked("bank/execute");
            let funded = app.execute_contract(payer.clone(), addr.clone(), &false, &[cosmwasm_std::coin(2, "ufund")]);
            let tagged_bank_asked = asked("bank/execute") - before;
            let shown = q(app, QueryRequest::Bank(BankQuery::Balance { address: addr.to_string(), denom: "ufund".into() }));
            funds_line = Some(if funded.is_err() {
                "funds: the funded call failed".to_string()
            } else if tagged_bank_asked == 1 || shown.contains("\"amount\":\"2\"") {
                "funds: moved by the application's bank".to_string()
            } else {
                format!("funds: NOT moved by the application's bank (a tagged bank was asked {} times, the bank shows {})", tagged_bank_asked, shown)
            });
            let _ = app.execute_contract(sender.clone(), addr.clone(), &true, &[]);
            let _ = app.wrap().query_wasm_smart::<Empty>(addr.clone(), &Empty {});
            let _ = app.wasm_sudo(addr.clone(), &Empty {});
            let _ = app.sudo(cw_multi_test::SudoMsg::Wasm(WasmSudo { contract_addr: addr.clone(), message: Binary::from(b"{}".to_vec()) }));
            let _ = app.migrate_contract(sender.clone(), addr, &Empty {}, code);
        }
    }
    let want = (api_id(app.api()), app.block_info().height);
    let seen: Vec<(String, String, u64)> = HANDED.with(|h| h.borrow().clone());
    let mut odd: Vec<String> = seen.iter().filter(|(_, a, h)| (a.clone(), *h) != want).map(|(w, a, h)| format!("{} was handed api {} and height {}", w, a, h)).collect();
    odd.sort();
    odd.dedup();
    t.push(funds_line.unwrap_or_else(|| "funds: no contract on this chain (stub wasm keeper)".to_string()));
    t.push(if seen.is_empty() { "handed: nothing observed".to_string() } else if odd.is_empty() { "handed: the application's api and block".to_string() } else { format!("handed: the application has api {} and height {}, but {}", want.0, want.1, odd.join("; ")) });
    t
}

/// What the probe must show for a slot when it was configured / left at its default.
fn expected_line(slot: &str, tagged: bool, rt: &Rt, storage_tagged: bool, defaults: &[String]) -> String {
    let default_of = |prefix: &str| defaults.iter().find(|l| l.starts_with(prefix)).cloned().unwrap_or_default();
    match (slot, tagged) {
        ("raw", _) => raw_line(expected_raw(rt, storage_tagged).into_iter()),
        ("init", _) => format!("init: count=1 marker=init-{}|saw:{}", rt.seed, if storage_tagged { format!("seeded-{}", rt.seed) } else { "none".into() }),
        ("storage", true) => format!("storage: seeded-{} victim=none overwrite=new untouched=kept", rt.seed),
        ("api", true) => "api: tagapi".into(),
        ("handed", _) => "handed: the application's api and block".into(),
        ("funds", true) => "funds: no contract on this chain (stub wasm keeper)".into(),
        ("funds", false) => "funds: moved by the application's bank".into(),
        ("block", true) => {
            let b = rt.block();
            format!("block: {} {} {}", b.height, b.time.nanos(), b.chain_id)
        }
        ("bank", true) => "bank: ok:tag:bank ok:\"tag:bank\"".into(),
        ("custom", true) => "custom: ok:tag:custom ok:\"tag:custom\"".into(),
        ("wasm", true) => "wasm: ok:tag:wasm ok:\"tag:wasm\"".into(),
        ("staking", true) => "staking: ok:tag:staking ok:\"tag:staking\"".into(),
        ("distribution", true) => "distribution: ok:tag:distribution".into(),
        ("ibc", true) => "ibc: ok:tag:ibc ok:\"tag:ibc\"".into(),
        ("gov", true) => "gov: ok:tag:gov".into(),
        ("stargate", true) => "stargate: ok:tag:stargate ok:tag:stargate ok:\"tag:stargate\" ok:\"tag:stargate\"".into(),
        (s, false) => default_of(&format!("{}:", s)),
        _ => String::new(),
    }
}

// --- ContractWrapper ------------------------------------------------------------------------------

/// What every wrapped entry point returns: attributes, an event, data, sub-messages with id / payload / gas limit /
/// reply_on and plain messages of several kinds. The wrapper must hand it on as it is (lifting `Empty` messages into
/// the chain's message type — `Empty` again here — changes nothing).
fn rich(name: &str) -> Response {
    use cosmwasm_std::{coin, ReplyOn, SubMsg};
    let mut sub = SubMsg::reply_always(BankMsg::Send { to_address: "to".into(), amount: vec![coin(3, "ua"), coin(0, "ub")] }, 7).with_gas_limit(12_345).with_payload(Binary::from(b"payload".to_vec()));
    sub.reply_on = ReplyOn::Always;
    Response::new()
        .add_attribute("entry", name)
        .add_attribute("second", "")
        .add_event(cosmwasm_std::Event::new("ev").add_attribute("k", "v"))
        // an event without attributes, an event whose attribute has an empty value, an event of the shortest type
        .add_event(cosmwasm_std::Event::new("bare"))
        .add_event(cosmwasm_std::Event::new("half").add_attribute("k", ""))
        .add_event(cosmwasm_std::Event::new("zz").add_attribute("a", "1").add_attribute("a", "1"))
        .set_data(format!("data-{}", name).into_bytes())
        .add_submessage(sub)
        .add_submessage(SubMsg::reply_on_error(WasmMsg::Execute { contract_addr: "c".into(), msg: Binary::from(b"{}".to_vec()), funds: vec![coin(1, "ua")] }, u64::MAX).with_gas_limit(1))
        .add_submessage(SubMsg::reply_on_success(StakingMsg::Delegate { validator: "v".into(), amount: coin(5, "ua") }, 0))
        .add_message(DistributionMsg::SetWithdrawAddress { address: "w".into() })
        .add_message(GovMsg::Vote { proposal_id: 3, option: VoteOption::No })
        .add_message(CosmosMsg::Any(AnyMsg { type_url: "/t".into(), value: Binary::from(vec![1u8, 2]) }))
        .add_messages(every_other_variant())
}

/// One message of every remaining variant of every message enum (a lifted response must carry each of them as it was).
#[allow(deprecated)]
fn every_other_variant() -> Vec<CosmosMsg> {
    use cosmwasm_std::{coin, Decimal, IbcTimeout, WeightedVoteOption};
    vec![
        BankMsg::Burn { amount: vec![coin(2, "ub")] }.into(),
        WasmMsg::Instantiate { admin: Some("adm".into()), code_id: 7, msg: Binary::from(b"{}".to_vec()), funds: vec![coin(1, "ua")], label: "l".into() }.into(),
        WasmMsg::Instantiate2 { admin: None, code_id: 8, label: "l2".into(), msg: Binary::from(b"{}".to_vec()), funds: vec![], salt: Binary::from(vec![9u8; 3]) }.into(),
        WasmMsg::Migrate { contract_addr: "c".into(), new_code_id: 9, msg: Binary::from(b"{}".to_vec()) }.into(),
        WasmMsg::UpdateAdmin { contract_addr: "c".into(), admin: "a2".into() }.into(),
        WasmMsg::ClearAdmin { contract_addr: "c".into() }.into(),
        StakingMsg::Undelegate { validator: "v".into(), amount: coin(4, "ua") }.into(),
        StakingMsg::Redelegate { src_validator: "v".into(), dst_validator: "v2".into(), amount: coin(3, "ua") }.into(),
        DistributionMsg::WithdrawDelegatorReward { validator: "v".into() }.into(),
        DistributionMsg::FundCommunityPool { amount: vec![coin(1, "ua")] }.into(),
        CosmosMsg::Stargate { type_url: "/legacy".into(), value: Binary::from(vec![7u8, 7]) },
        IbcMsg::Transfer { channel_id: "channel-1".into(), to_address: "remote".into(), amount: coin(5, "ua"), timeout: IbcTimeout::with_timestamp(Timestamp::from_seconds(99)), memo: Some("m".into()) }.into(),
        IbcMsg::SendPacket { channel_id: "channel-2".into(), data: Binary::from(vec![1u8]), timeout: IbcTimeout::with_timestamp(Timestamp::from_seconds(100)) }.into(),
        IbcMsg::CloseChannel { channel_id: "channel-3".into() }.into(),
        GovMsg::VoteWeighted { proposal_id: 4, options: vec![WeightedVoteOption { option: VoteOption::Yes, weight: Decimal::percent(60) }, WeightedVoteOption { option: VoteOption::Abstain, weight: Decimal::percent(40) }] }.into(),
    ]
}

fn w_execute(_d: DepsMut, e: Env, _i: MessageInfo, _m: Empty) -> StdResult<Response> {
    if e.block.height == 999 {
        return Err(StdError::generic_err("probe error of w_execute"));
    }
    Ok(rich("execute"))
}
fn w_instantiate(_d: DepsMut, e: Env, _i: MessageInfo, _m: Empty) -> StdResult<Response> {
    if e.block.height == 999 {
        return Err(StdError::generic_err("probe error of w_instantiate"));
    }
    Ok(rich("instantiate"))
}
fn w_query(_d: Deps, e: Env, _m: Empty) -> StdResult<Binary> {
    if e.block.height == 999 {
        return Err(StdError::generic_err("probe error of w_query"));
    }
    Ok(Binary::from(b"query".to_vec()))
}
fn w_sudo(_d: DepsMut, e: Env, _m: Empty) -> StdResult<Response> {
    if e.block.height == 999 {
        return Err(StdError::generic_err("probe error of w_sudo"));
    }
    Ok(rich("sudo"))
}
fn w_sudo_e(_d: DepsMut, e: Env, _m: Empty) -> StdResult<Response> {
    if e.block.height == 999 {
        return Err(StdError::generic_err("probe error of w_sudo_e"));
    }
    Ok(rich("sudo_empty"))
}
fn w_reply(_d: DepsMut, e: Env, _m: Reply) -> StdResult<Response> {
    if e.block.height == 999 {
        return Err(StdError::generic_err("probe error of w_reply"));
    }
    Ok(rich("reply"))
}
fn w_reply_e(_d: DepsMut, e: Env, _m: Reply) -> StdResult<Response> {
    if e.block.height == 999 {
        return Err(StdError::generic_err("probe error of w_reply_e"));
    }
    Ok(rich("reply_empty"))
}
fn w_migrate(_d: DepsMut, e: Env, _m: Empty) -> Result<Response, StdError> {
    if e.block.height == 999 {
        return Err(StdError::generic_err("probe error of w_migrate"));
    }
    Ok(rich("migrate"))
}
fn w_migrate_e(_d: DepsMut, e: Env, _m: Empty) -> Result<Response, StdError> {
    if e.block.height == 999 {
        return Err(StdError::generic_err("probe error of w_migrate_e"));
    }
    Ok(rich("migrate_empty"))
}

pub fn probe_wrapper(c: Box<dyn Contract<Empty, Empty>>, _rt: &Rt) -> Vec<String> {
    let mut deps = mock_dependencies();
    let env = mock_env();
    let info = MessageInfo { sender: Addr::unchecked("s"), funds: vec![] };
    let altered: std::cell::RefCell<Vec<String>> = Default::default();
    let attr = |r: AnyResult<Response>| match r {
        Ok(r) => {
            let name = r.attributes.first().map(|a| a.value.clone()).unwrap_or_else(|| "ok".into());
            // the response the supplied function returned must arrive as it is
            if format!("{:?}", r) != format!("{:?}", rich(&name)) {
                altered.borrow_mut().push(format!("{} returns {:?} instead of {:?}", name, r, rich(&name)));
            }
            name
        }
        Err(_) => "absent".into(),
    };
    #[allow(deprecated)]
    let reply_with = |id: u64, ok: bool| Reply {
        id,
        payload: if id % 2 == 0 { Binary::default() } else { Binary::from(b"payload".to_vec()) },
        gas_used: 0,
        result: if ok { SubMsgResult::Ok(SubMsgResponse { events: vec![], data: None, msg_responses: vec![] }) } else { SubMsgResult::Err("failed".into()) },
    };
    // the reply entry point is the same for every reply: boundary ids, with and without payload, Ok and Err results
    let mut reply_names: Vec<String> = [(0u64, true), (1, true), (u64::MAX, false), (0, false)].iter().map(|(id, ok)| attr(c.reply(deps.as_mut(), env.clone(), reply_with(*id, *ok)))).collect();
    reply_names.dedup();
    let reply_line = if reply_names.len() == 1 { reply_names[0].clone() } else { format!("differs between replies: {:?}", reply_names) };
    let mut out = vec![
        format!("execute: {}", attr(c.execute(deps.as_mut(), env.clone(), info.clone(), b"{}".to_vec()))),
        format!("instantiate: {}", attr(c.instantiate(deps.as_mut(), env.clone(), info, b"{}".to_vec()))),
        format!("query: {}", c.query(deps.as_ref(), env.clone(), b"{}".to_vec()).map(|b| String::from_utf8_lossy(&b).to_string()).unwrap_or_else(|_| "err".into())),
        format!("sudo: {}", attr(c.sudo(deps.as_mut(), env.clone(), b"{}".to_vec()))),
        format!("reply: {}", reply_line),
        format!("migrate: {}", attr(c.migrate(deps.as_mut(), env, b"{}".to_vec()))),
        format!("checksum: {}", c.checksum().map(|c| c.to_hex()).unwrap_or_else(|| "none".into())),
    ];
    let altered = altered.into_inner();
    out.push(if altered.is_empty() { "responses: intact".to_string() } else { format!("responses: {}", altered.join("; ")) });
    // the error a supplied function returns arrives as that error, still of its own type (tests downcast it)
    let mut env9 = mock_env();
    env9.block.height = 999;
    let info9 = MessageInfo { sender: Addr::unchecked("s"), funds: vec![] };
    fn kind<T>(r: AnyResult<T>) -> String {
        match r {
            Ok(_) => "no-error".into(),
            Err(e) => match e.downcast_ref::<StdError>() {
                Some(StdError::GenericErr { msg, .. }) if msg.starts_with("probe error of w_") => format!("typed({})", msg.trim_start_matches("probe error of w_")),
                _ => "untyped".into(),
            },
        }
    }
    out.push(format!(
        "errors: execute={} instantiate={} query={} sudo={} reply={} migrate={}",
        kind(c.execute(deps.as_mut(), env9.clone(), info9.clone(), b"{}".to_vec())),
        kind(c.instantiate(deps.as_mut(), env9.clone(), info9, b"{}".to_vec())),
        kind(c.query(deps.as_ref(), env9.clone(), b"{}".to_vec())),
        kind(c.sudo(deps.as_mut(), env9.clone(), b"{}".to_vec())),
        kind(c.reply(deps.as_mut(), env9.clone(), reply_with(3, true))),
        kind(c.migrate(deps.as_mut(), env9, b"{}".to_vec()))
    ));
    out
}

include!("c20_perms.rs");

const RULE: &str = "cases = (a) AppBuilder step sequences, generated as source code because every with_* changes the builder's type, starting from AppBuilder::new() (and, for chains of up to two steps, also from new_custom()): the empty chain, all 11 \
single steps, ALL 110 ordered pairs, 40 ordered triples and the full set of 11 steps in 24 orders (rotations, reversal, pseudo-random), each with a tagged replacement of a \
distinct type per slot (bank, custom, staking, distribution, ibc, gov modules answering with their tag; MockApiBech32 with a tagged prefix; a storage type pre-seeded with a marker; \
a stub Wasm; a tagged BlockInfo), run-time values varying with VERIF_SEED; the built App is probed with one message and one query per module kind plus block_info / api / storage / \
the init marker and counter; (b) ContractWrapper: ALL ordered selections of {sudo|sudo_empty, reply|reply_empty, migrate|migrate_empty, checksum} on ContractWrapper::new (and the \
empty / full ones on new_with_empty), each probed by calling all six entry points with mock deps and reading checksum(). distinct_nontrivial = distinct step sequences with at least \
two steps.";

fn main() {
    let args: Vec<String> = std::env::args().collect();
    let prop = args.get(1).cloned().unwrap_or_else(|| "C20".into());
    let tier = if args.get(2).map(|s| s.as_str()) == Some("thorough") { Tier::Thorough } else { Tier::Quick };
    let seed = std::env::var("VERIF_SEED").ok().and_then(|s| s.parse::<i64>().ok()).map(|s| s as u64).unwrap_or(1);
    let verif_dir = std::path::PathBuf::from(std::env::var("VERIF_DIR").unwrap_or_else(|_| "/verif".into()));
    let start = Instant::now();
    let ctx = Ctx { prop: prop.clone(), tier, seed, start, deadline: start + soft_deadline(tier), workers: 1, verif_dir };
    install_quiet_panic_hook();
    let replay = args.iter().position(|a| a == "--replay").and_then(|i| args.get(i + 1)).map(std::path::PathBuf::from);
    let mut rep = Report::new();
    // thorough: the same chains with several run-time seeds
    let seeds: Vec<u64> = if tier.is_thorough() { (0..16).map(|i| seed * 1000 + i).collect() } else { (0..4).map(|i| seed * 4 + i).collect() };
    let slots = ["raw", "init", "storage", "api", "handed", "funds", "block", "bank", "custom", "wasm", "staking", "distribution", "ibc", "gov", "stargate"];
    for s in seeds {
        let rt = Rt { seed: s };
        let chains = match catch(|| builder_chains(&rt)) {
            Ok(c) => c,
            Err(p) => {
                rep.violate("C20", "builder-chain-panics", p.clone(), json!({"panic": p}));
                continue;
            }
        };
        let defaults = chains.iter().find(|(steps, _)| steps.is_empty()).map(|(_, t)| t.clone()).unwrap_or_default();
        // defaults of the empty chain must themselves be the documented defaults
        let want_defaults = ["init: count=1", "storage: none victim=none overwrite=new untouched=none", "api: cosmwasm", "block: 12345 1571797419879305533 cosmos-testnet-14002", "custom: err err", "ibc: err err", "gov: err", "stargate: err err err err"];
        for w in want_defaults {
            rep.bump("c20/default_lines_checked");
            if !defaults.iter().any(|l| l.starts_with(w)) {
                rep.violate("C20", "default-component-differs", format!("empty builder chain shows {:?}, expected a line starting with {:?}", defaults, w), json!({"steps": [], "probe": defaults}));
            }
        }
        let mut by_set: std::collections::BTreeMap<Vec<&'static str>, (Vec<&'static str>, Vec<String>)> = Default::default();
        for (steps, t) in &chains {
            rep.evaluations += 1;
            rep.bump(&format!("c20/builder_chains/len{}", steps.iter().filter(|s| **s != "new_custom" && !s.starts_with("ctor:")).count().min(11)));
            if steps.iter().any(|s| s.starts_with("ctor:")) {
                rep.bump("c20/other_constructors");
            }
            if steps.contains(&"new_custom") {
                rep.bump("c20/builder_chains/from_new_custom");
            }
            if steps.len() >= 2 {
                rep.fingerprints.insert(fp_str(&format!("b{:?}", steps)));
            }
            let storage_tagged = steps.contains(&"storage");
            for slot in slots {
                // (the line about attached funds depends on whether the chain has a real wasm keeper)
                let tagged = if slot == "funds" { steps.contains(&"wasm") } else { steps.contains(&slot) };
                let want = expected_line(slot, tagged, &rt, storage_tagged, &defaults);
                let got = t.iter().find(|l| l.starts_with(&format!("{}:", slot))).cloned().unwrap_or_default();
                rep.bump("c20/slots_checked");
                if got != want {
                    let sig = if slot == "funds" { "attached-funds-not-moved-by-the-configured-bank".to_string() } else if slot == "handed" { "component-handed-another-api-or-block-than-the-application-has".to_string() } else if slot == "raw" { "built-app-storage-is-not-the-supplied-one-plus-the-init-functions-changes".to_string() } else if tagged { format!("configured-{}-lost", slot) } else if slot == "init" { "init-function-not-run-once-against-the-supplied-storage".to_string() } else { format!("unconfigured-{}-is-not-the-default", slot) };
                    rep.violate("C20", sig, format!("steps {:?}: probe shows [{}], expected [{}]", steps, got, want), json!({"steps": steps, "probe": t, "seed": s}));
                }
            }
            // every order of the same set — and both constructors, AppBuilder::new() and new_custom() — behave identically
            let mut set: Vec<&'static str> = steps.iter().copied().filter(|s| *s != "new_custom" && !s.starts_with("ctor:") && !s.starts_with("decoy:")).collect();
            if steps.iter().any(|s| s.starts_with("decoy:")) {
                rep.bump("c20/builder_chains/with_a_step_given_twice");
            }
            set.sort();
            if let Some((other, t0)) = by_set.get(&set) {
                rep.bump("c20/permutation_pairs_compared");
                if t0 != t {
                    rep.violate("C20", "builder-order-changes-behaviour", format!("steps {:?} vs {:?}: {:?} vs {:?}", other, steps, t0, t), json!({"steps_a": other, "steps_b": steps, "seed": s}));
                }
            } else {
                by_set.insert(set, (steps.clone(), t.clone()));
            }
        }
        let wchains = match catch(|| wrapper_chains(&rt)) {
            Ok(c) => c,
            Err(p) => {
                rep.violate("C20", "wrapper-chain-panics", p.clone(), json!({"panic": p}));
                continue;
            }
        };
        for (steps, t) in &wchains {
            rep.evaluations += 1;
            rep.bump(&format!("c20/wrapper_chains/len{}", steps.len() - 1));
            if steps.len() >= 3 {
                rep.fingerprints.insert(fp_str(&format!("w{:?}", steps)));
            }
            // the value supplied last for a slot is the one that was supplied
            let has = |n: &str| steps.iter().rev().find(|s| **s == n || **s == format!("{}_empty", n)).copied();
            let last_checksum = steps.iter().rev().find(|s| s.starts_with("checksum")).copied();
            if steps.iter().filter(|s| s.starts_with("checksum")).count() > 1 || ["sudo", "reply", "migrate"].iter().any(|n| steps.iter().filter(|s| s.starts_with(n)).count() > 1) {
                rep.bump("c20/wrapper_chains/with_a_step_given_twice");
            }
            let want = vec![
                "execute: execute".to_string(),
                "instantiate: instantiate".to_string(),
                "query: query".to_string(),
                format!("sudo: {}", has("sudo").unwrap_or("absent")),
                format!("reply: {}", has("reply").unwrap_or("absent")),
                format!("migrate: {}", has("migrate").unwrap_or("absent")),
                format!("checksum: {}", match last_checksum { Some("checksum") => rt.checksum().to_hex(), Some(_) => rt.decoy_checksum().to_hex(), None => "none".into() }),
                "responses: intact".to_string(),
                format!(
                    "errors: execute=typed(execute) instantiate=typed(instantiate) query=typed(query) sudo={} reply={} migrate={}",
                    has("sudo").map(|n| format!("typed({})", n.replace("_empty", "_e"))).unwrap_or_else(|| "untyped".into()),
                    has("reply").map(|n| format!("typed({})", n.replace("_empty", "_e"))).unwrap_or_else(|| "untyped".into()),
                    has("migrate").map(|n| format!("typed({})", n.replace("_empty", "_e"))).unwrap_or_else(|| "untyped".into())
                ),
            ];
            for (g, w) in t.iter().zip(want.iter()) {
                rep.bump("c20/wrapper_slots_checked");
                if g != w {
                    let slot = w.split(':').next().unwrap_or("");
                    let later: Vec<&&str> = steps.iter().skip_while(|s| !s.starts_with(slot)).skip(1).collect();
                    let sig = if slot == "checksum" { format!("wrapper-checksum-lost-by-later-with-step") } else if slot == "responses" { "wrapper-alters-the-response-of-an-entry-point".to_string() } else if slot == "errors" { "wrapper-alters-the-error-of-an-entry-point".to_string() } else { format!("wrapper-{}-entry-point-lost", slot) };
                    rep.violate("C20", sig, format!("chain {:?}: [{}], expected [{}] (steps after it: {:?})", steps, g, w, later), json!({"chain": steps, "probe": t, "seed": s}));
                }
            }
        }
        if rep.samples.len() < 3 {
            if let Some((steps, t)) = chains.iter().find(|(st, _)| st.len() == 3) {
                rep.sample(json!({"builder_steps": steps, "probe": t}));
            }
            if let Some((steps, t)) = wchains.iter().find(|(st, _)| st.len() == 5) {
                rep.sample(json!({"wrapper_chain": steps, "probe": t}));
            }
        }
    }
    // the same wrapper chains on builds of the repository with reduced feature sets (other processes, built by ./check)
    match std::env::var("VERIF_FEAT_BINS") {
        Ok(bins) => {
            let seed_args: Vec<String> = (if tier.is_thorough() { (0..16).map(|i| seed * 1000 + i).collect::<Vec<u64>>() } else { (0..4).map(|i| seed * 4 + i).collect() }).iter().map(|s| s.to_string()).collect();
            for item in bins.split(';').filter(|s| !s.is_empty()) {
                let (name, bin) = item.split_once('=').unwrap_or(("?", item));
                match std::process::Command::new(bin).args(&seed_args).output() {
                    Ok(out) if out.status.success() => match serde_json::from_slice::<serde_json::Value>(&out.stdout) {
                        Ok(v) => {
                            rep.add("c20/minimal_features/wrapper_chains", v["chains"].as_u64().unwrap_or(0));
                            rep.add(&format!("c20/reduced_features/{}/wrapper_chains", name), v["chains"].as_u64().unwrap_or(0));
                            rep.add("c20/minimal_features/wrapper_slots_checked", v["slots_checked"].as_u64().unwrap_or(0));
                            rep.evaluations += v["chains"].as_u64().unwrap_or(0);
                            for viol in v["violations"].as_array().cloned().unwrap_or_default() {
                                rep.violate("C20", viol[0].as_str().unwrap_or("?").to_string(), viol[1].as_str().unwrap_or("").to_string(), json!({"build": name, "chain": viol[2]}));
                            }
                        }
                        Err(e) => rep.inconclusive.push(format!("reduced-features run [{}]: unreadable output: {}", name, e)),
                    },
                    Ok(out) => rep.inconclusive.push(format!("reduced-features run [{}] failed: {} {}", name, out.status, String::from_utf8_lossy(&out.stderr).chars().take(300).collect::<String>())),
                    Err(e) => rep.inconclusive.push(format!("reduced-features run [{}] could not start: {}", name, e)),
                }
            }
        }
        Err(_) => rep.inconclusive.push("VERIF_FEAT_BINS is not set: run this check through ./check, which builds the reduced-features harnesses".into()),
    }
    rep.rule = RULE.into();
    rep.exhaustive = Some(rep.violations.is_empty());
    rep.extra.insert("exhaustive_scope".into(), json!("all 110 ordered pairs of builder steps; all ordered ContractWrapper::new with_* selections (with both typed and _empty variants); the rest is sampled"));
    rep.assume("the wrapper chains run in this binary (cw-multi-test with staking, stargate, cosmwasm_2_2) and in vcheck-c20-min on builds with the feature sets default, cosmwasm_2_0, stargate, staking, staking+stargate+cosmwasm_1_4");
    rep.assume("builder chains start from AppBuilder::new() (Empty custom message/query types); new_custom differs only in type parameters");
    rep.assume("the stub Wasm and tagged modules answer with their tag; defaults are identified by the empty chain's probe and the documented default values");
    for k in ["c20/builder_chains/len0", "c20/builder_chains/len1", "c20/builder_chains/len2", "c20/builder_chains/len3", "c20/builder_chains/len11", "c20/permutation_pairs_compared", "c20/wrapper_chains/len4", "c20/wrapper_slots_checked", "c20/wrapper_chains/with_a_step_given_twice", "c20/builder_chains/with_a_step_given_twice", "c20/minimal_features/wrapper_chains", "c20/reduced_features/default/wrapper_chains", "c20/reduced_features/staking/wrapper_chains", "c20/reduced_features/stargate/wrapper_chains", "c20/reduced_features/cosmwasm_2_0/wrapper_chains"] {
        rep.require(k);
    }
    let exit = conclude(&ctx, rep, replay.as_deref());
    std::process::exit(exit);
}
