//! vcheck — runtime-monitoring checks for cw-multi-test (see /verif/DESIGN.md).
//!
//! usage: vcheck <Cxx> <quick|thorough> [--replay <file>]
//! exit 0: property held on everything observed (KNOWN-FINDING lines possible)
//! exit 1: VIOLATION property=<id> replay=<path>
//! exit 2: INCONCLUSIVE (harness problem / required coverage missing) — never a VIOLATION line

mod core;
mod engines;
mod model;
mod props;
mod puppet;
mod rawstate;
mod rng;

use crate::core::*;
use serde_json::{json, Value};
use std::path::PathBuf;
use std::time::Instant;

fn main() {
    let args: Vec<String> = std::env::args().collect();
    if args.len() >= 2 && args[1] == "--c19-child" {
        // child process of the C19 cross-process determinism monitor: prints a transcript hash
        std::env::remove_var("RUST_BACKTRACE");
        std::env::remove_var("RUST_LIB_BACKTRACE");
        install_quiet_panic_hook();
        props::c19_child(&args[2..]);
        return;
    }
    if args.len() < 3 {
        eprintln!("usage: vcheck <Cxx> <quick|thorough> [--replay <file>]");
        std::process::exit(2);
    }
    // Error strings must never carry the harness's own backtrace (DESIGN.md section 9).
    std::env::remove_var("RUST_BACKTRACE");
    std::env::remove_var("RUST_LIB_BACKTRACE");

    let prop = args[1].clone();
    let tier = match args[2].as_str() {
        "quick" => Tier::Quick,
        "thorough" => Tier::Thorough,
        other => {
            eprintln!("unknown tier {}", other);
            std::process::exit(2);
        }
    };
    let replay = args
        .iter()
        .position(|a| a == "--replay")
        .and_then(|i| args.get(i + 1))
        .map(PathBuf::from);
    let seed = std::env::var("VERIF_SEED")
        .ok()
        .and_then(|s| s.parse::<i64>().ok())
        .map(|s| s as u64)
        .unwrap_or(1);
    let verif_dir = PathBuf::from(std::env::var("VERIF_DIR").unwrap_or_else(|_| "/verif".into()));
    let workers = std::env::var("VERIF_WORKERS")
        .ok()
        .and_then(|s| s.parse::<usize>().ok())
        .unwrap_or(match tier {
            Tier::Quick => 8,
            Tier::Thorough => 16,
        });
    let start = Instant::now();
    let ctx = Ctx {
        prop: prop.clone(),
        tier,
        seed,
        start,
        deadline: start + soft_deadline(tier),
        workers,
        verif_dir: verif_dir.clone(),
    };
    install_quiet_panic_hook();

    let result = catch(|| match &replay {
        Some(path) => {
            let text = std::fs::read_to_string(path).expect("read replay file");
            let v: Value = serde_json::from_str(&text).expect("parse replay file");
            props::replay(&ctx, &v)
        }
        None => props::run(&ctx),
    });
    let rep = match result {
        Ok(Some(r)) => r,
        Ok(None) => {
            println!("INCONCLUSIVE property={} unknown property or replay not supported", prop);
            std::process::exit(2);
        }
        Err(p) => {
            println!("INCONCLUSIVE property={} harness panic: {}", prop, p);
            std::process::exit(2);
        }
    };

    let exit = conclude(&ctx, rep, replay.as_deref());
    std::process::exit(exit);
}
