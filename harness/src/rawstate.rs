//! Readers over the complete raw root storage (`App::storage().range(None,None,Ascending)`).
//! Independent re-implementation of the key layout (length-prefixed namespaces).

use std::collections::BTreeMap;

pub type Raw = Vec<(Vec<u8>, Vec<u8>)>;

pub fn lp(seg: &[u8]) -> Vec<u8> {
    let mut v = vec![(seg.len() >> 8) as u8, (seg.len() & 0xFF) as u8];
    v.extend_from_slice(seg);
    v
}

pub fn prefix(segs: &[&[u8]]) -> Vec<u8> {
    segs.iter().flat_map(|s| lp(s)).collect()
}

pub fn dump(storage: &dyn cosmwasm_std::Storage) -> Raw {
    storage.range(None, None, cosmwasm_std::Order::Ascending).collect()
}

/// Bank ledger decoded from raw storage: address string -> denom -> amount.
pub fn bank_ledger(raw: &Raw) -> Result<BTreeMap<String, BTreeMap<String, u128>>, String> {
    let p = prefix(&[b"bank", b"balances"]);
    let mut out = BTreeMap::new();
    for (k, v) in raw {
        if k.starts_with(&p) {
            let addr = String::from_utf8(k[p.len()..].to_vec()).map_err(|e| e.to_string())?;
            let coins: Vec<cosmwasm_std::Coin> = serde_json::from_slice(v).map_err(|e| format!("bank value for {}: {}", addr, e))?;
            let mut m = BTreeMap::new();
            for c in coins {
                if m.insert(c.denom.clone(), c.amount.u128()).is_some() {
                    return Err(format!("raw ledger lists denomination {} twice for {}", c.denom, addr));
                }
            }
            out.insert(addr, m);
        }
    }
    Ok(out)
}

/// Which top-level module namespace a raw key belongs to ("bank", "wasm", "staking", ...).
pub fn module_of(key: &[u8]) -> String {
    if key.len() >= 2 {
        let n = ((key[0] as usize) << 8) | key[1] as usize;
        if key.len() >= 2 + n {
            return String::from_utf8_lossy(&key[2..2 + n]).to_string();
        }
    }
    "<raw>".to_string()
}

pub fn diff(a: &Raw, b: &Raw) -> Vec<String> {
    let ma: BTreeMap<_, _> = a.iter().cloned().collect();
    let mb: BTreeMap<_, _> = b.iter().cloned().collect();
    let mut out = vec![];
    for (k, v) in &ma {
        match mb.get(k) {
            None => out.push(format!("removed {}", show(k))),
            Some(w) if w != v => out.push(format!("changed {}: {} -> {}", show(k), show(v), show(w))),
            _ => {}
        }
    }
    for (k, v) in &mb {
        if !ma.contains_key(k) {
            out.push(format!("added {} = {}", show(k), show(v)));
        }
    }
    out
}

pub fn show(b: &[u8]) -> String {
    let s: String = b
        .iter()
        .take(96)
        .map(|c| if c.is_ascii_graphic() || *c == b' ' { (*c as char).to_string() } else { format!("\\x{:02x}", c) })
        .collect();
    if b.len() > 96 {
        format!("{}..({}B)", s, b.len())
    } else {
        s
    }
}
