//! Deterministic in-tree PRNG (SplitMix64 seeding + xoshiro256**), so a seed replays bit for bit
//! and no extra crate is needed.

#[derive(Clone, Debug)]
pub struct Rng {
    s: [u64; 4],
}

pub fn splitmix(x: &mut u64) -> u64 {
    *x = x.wrapping_add(0x9E37_79B9_7F4A_7C15);
    let mut z = *x;
    z = (z ^ (z >> 30)).wrapping_mul(0xBF58_476D_1CE4_E5B9);
    z = (z ^ (z >> 27)).wrapping_mul(0x94D0_49BB_1331_11EB);
    z ^ (z >> 31)
}

/// Derives an independent stream id from (seed, property tag, worker, extra).
pub fn derive(seed: u64, tag: &str, worker: u64, extra: u64) -> u64 {
    let mut x = seed ^ 0xA076_1D64_78BD_642F;
    let mut h = splitmix(&mut x);
    for b in tag.bytes() {
        x ^= (b as u64).wrapping_mul(0x1000_0000_01B3);
        h ^= splitmix(&mut x);
    }
    x ^= worker.wrapping_mul(0xD6E8_FEB8_6659_FD93);
    h ^= splitmix(&mut x);
    x ^= extra.wrapping_mul(0xCA5A_8264_95A5_A5A5);
    h ^ splitmix(&mut x)
}

impl Rng {
    pub fn new(seed: u64) -> Self {
        let mut x = seed;
        let s = [
            splitmix(&mut x),
            splitmix(&mut x),
            splitmix(&mut x),
            splitmix(&mut x),
        ];
        Rng { s }
    }

    pub fn next_u64(&mut self) -> u64 {
        let result = self.s[1].wrapping_mul(5).rotate_left(7).wrapping_mul(9);
        let t = self.s[1] << 17;
        self.s[2] ^= self.s[0];
        self.s[3] ^= self.s[1];
        self.s[1] ^= self.s[2];
        self.s[0] ^= self.s[3];
        self.s[2] ^= t;
        self.s[3] = self.s[3].rotate_left(45);
        result
    }

    /// Uniform in [0, n) (n > 0).
    pub fn below(&mut self, n: u64) -> u64 {
        debug_assert!(n > 0);
        // multiply-shift; bias is irrelevant for workload generation
        ((self.next_u64() as u128 * n as u128) >> 64) as u64
    }

    pub fn usize_below(&mut self, n: usize) -> usize {
        self.below(n as u64) as usize
    }

    /// Uniform in [lo, hi] inclusive.
    pub fn range(&mut self, lo: u64, hi: u64) -> u64 {
        lo + self.below(hi - lo + 1)
    }

    pub fn range_u128(&mut self, lo: u128, hi: u128) -> u128 {
        let span = hi - lo + 1;
        let r = ((self.next_u64() as u128) << 64) | self.next_u64() as u128;
        lo + r % span
    }

    /// True with probability num/den.
    pub fn chance(&mut self, num: u64, den: u64) -> bool {
        self.below(den) < num
    }

    pub fn pick<'a, T>(&mut self, xs: &'a [T]) -> &'a T {
        &xs[self.usize_below(xs.len())]
    }

    pub fn bytes(&mut self, len: usize) -> Vec<u8> {
        (0..len).map(|_| self.next_u64() as u8).collect()
    }

    pub fn shuffle<T>(&mut self, xs: &mut [T]) {
        for i in (1..xs.len()).rev() {
            let j = self.usize_below(i + 1);
            xs.swap(i, j);
        }
    }
}
