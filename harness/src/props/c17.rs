//! C17 — every message and query reaches exactly the module configured for it.

use crate::core::*;
use crate::engines::e5_routing::*;
use crate::puppet::RMode;
use crate::rng::{derive, Rng};
use serde_json::json;

const RULE: &str = "cells = (message kind in {bank, staking, distribution, custom, ibc, gov, stargate, any} | query kind in {bank, staking, custom, ibc, stargate, grpc}) \
x origin in {top level; sub-message of the custom-typed contract at depth 1-3; sub-message of the Empty-typed contract lifted by new_with_empty at depth 1-3} x entry point of the emitting contract (execute at every depth; instantiate, reply after success, reply after a failed sub-message, sudo, migrate at depth 1-2) \
x all 2^6 accept/fail settings of recording modules (custom, staking, distribution, ibc, gov, stargate; bank records and delegates to the real keeper) \
x reply mode of the emitting sub-message (Never, Always, Error = failure caught) x with/without an earlier sibling to another module; plus 4 compiled \
configurations of the built-in Accepting/Failing module types, and sudo routing. Oracle per cell: exactly one new log entry, in module(kind), with the true sender \
and an identical payload; nothing else logged; caller sees the module's verdict; failing module => transaction fails with raw storage byte-identical unless caught, \
then only the failing module's writes are gone. distinct_nontrivial = distinct (cell, sibling, configuration) combinations executed.";

pub fn run(ctx: &Ctx) -> Report {
    let thorough = ctx.tier.is_thorough();
    let mut rep = parallel(ctx.workers, |wi| {
        let mut rep = Report::new();
        let mut rng = Rng::new(derive(ctx.seed, "C17", wi as u64, 0));
        if wi == 0 {
            for (sig, detail) in builtin_cells(&mut rep) {
                rep.violate("C17", sig, detail.clone(), json!({"engine": "e5_routing", "cell": detail}));
            }
            for (sig, detail) in empty_chain_cells(&mut rep) {
                rep.violate("C17", sig, detail.clone(), json!({"engine": "e5_routing", "cell": detail}));
            }
        }
        let mut w = RWorld::new();
        let mut n: u64 = 0;
        let rounds = if thorough { 6 } else { 1 };
        'outer: for round in 0..rounds {
            for cfg in 0..64u32 {
                if (cfg as usize) % ctx.workers != wi {
                    continue;
                }
                if ctx.expired() {
                    rep.bump("c17/stopped_by_deadline");
                    break 'outer;
                }
                {
                    let mut f = w.hub.failing.borrow_mut();
                    for (i, m) in MODULES.iter().enumerate() {
                        f.insert(m, cfg >> i & 1 == 1);
                    }
                }
                rep.bump("c17/configurations");
                let origins = [Origin::Top, Origin::Puppet(1), Origin::Puppet(2), Origin::Puppet(3), Origin::Lifted(1), Origin::Lifted(2), Origin::Lifted(3)];
                for k in KINDS {
                    for o in origins {
                        // every entry point of the emitting contract at depth 1; execute at every depth
                        let ents: &[Ent] = match o {
                            Origin::Puppet(1) | Origin::Lifted(1) => &[Ent::Execute, Ent::Instantiate, Ent::Reply, Ent::ReplyErr, Ent::Sudo, Ent::Migrate],
                            Origin::Puppet(2) | Origin::Lifted(2) => &[Ent::Execute, Ent::Instantiate, Ent::Reply, Ent::ReplyErr],
                            _ => &[Ent::Execute],
                        };
                        for &ent in ents {
                            for mode in [RMode::Never, RMode::Error, RMode::Always, RMode::Success] {
                                if o == Origin::Top && mode != RMode::Never {
                                    continue;
                                }
                                if ent != Ent::Execute && (mode == RMode::Always || mode == RMode::Success) && !thorough {
                                    continue;
                                }
                                // sibling variants: always in thorough, sampled in quick
                                let sib_choices: &[bool] = if o == Origin::Top { &[false] } else if thorough || rng.chance(1, 3) { &[false, true] } else { &[false] };
                                for &sib in sib_choices {
                                    n += 1;
                                    if let Some((sig, detail)) = exec_cell(&mut w, k, o, ent, mode, sib, n + round as u64 * 100_000, &mut rep) {
                                        rep.violate("C17", sig, detail.clone(), json!({"engine": "e5_routing", "cell": detail, "configuration": cfg}));
                                        // the instance may be inconsistent after a panic: start over
                                        let failing = w.hub.failing.borrow().clone();
                                        w = RWorld::new();
                                        *w.hub.failing.borrow_mut() = failing;
                                    }
                                }
                            }
                        }
                    }
                }
                for k in QKINDS {
                    for o in origins {
                        n += 1;
                        if let Some((sig, detail)) = query_cell(&mut w, k, o, n, &mut rep) {
                            rep.violate("C17", sig, detail.clone(), json!({"engine": "e5_routing", "cell": detail, "configuration": cfg}));
                        }
                    }
                }
                for (sig, detail) in multi_cells(&mut w, n + cfg as u64, &mut rep) {
                    rep.violate("C17", sig, detail.clone(), json!({"engine": "e5_routing", "cell": detail, "configuration": cfg}));
                }
                if cfg % 16 == 1 {
                    for (sig, detail) in attached_funds_cells(&mut w, n + cfg as u64, &mut rep) {
                        rep.violate("C17", sig, detail.clone(), json!({"engine": "e5_routing", "cell": detail, "configuration": cfg}));
                    }
                }
                if cfg % 8 == 0 {
                    for (sig, detail) in bulk_cells(&mut w, n + cfg as u64, &mut rep) {
                        rep.violate("C17", sig, detail.clone(), json!({"engine": "e5_routing", "cell": detail, "configuration": cfg}));
                    }
                }
                for (sig, detail) in sudo_cells(&mut w, &mut rep) {
                    rep.violate("C17", sig, detail.clone(), json!({"engine": "e5_routing", "cell": detail, "configuration": cfg}));
                }
            }
        }
        if wi == 0 {
            rep.sample(json!({"cell": "Gov Vote{proposal_id, option} emitted as sub-message (reply_on Error) by the lifted Empty-typed contract at depth 2, after an Ibc CloseChannel sibling, gov module configured to fail", "expectation": "one log entry in gov with sender = emitting contract; transaction Ok; gov marker rolled back; ibc marker kept; error reply delivered"}));
            rep.sample(json!({"cell": "QueryRequest::Grpc issued twice by the custom-typed contract at depth 3, stargate handler accepting", "expectation": "two identical log entries in stargate; answer bytes unchanged"}));
        }
        rep
    });
    // the same kind of cells on builds of the repository with reduced feature sets (other processes, built by ./check)
    match std::env::var("VERIF_FEAT_BINS") {
        Ok(bins) => {
            let n_seeds = if thorough { 24 } else { 3 };
            let seed_args: Vec<String> = (0..n_seeds).map(|i| (ctx.seed * 100 + i).to_string()).collect();
            for item in bins.split(';').filter(|s| !s.is_empty()) {
                let (name, bin) = item.split_once('=').unwrap_or(("?", item));
                match std::process::Command::new(bin).args(&seed_args).output() {
                    Ok(out) if out.status.success() => match serde_json::from_slice::<serde_json::Value>(&out.stdout) {
                        Ok(v) => {
                            rep.add(&format!("c17/reduced_features/{}/cells", name), v["cells"].as_u64().unwrap_or(0));
                            rep.add("c17/reduced_features/log_entries_checked", v["log_entries_checked"].as_u64().unwrap_or(0));
                            rep.evaluations += v["cells"].as_u64().unwrap_or(0);
                            for k in v["kinds"].as_array().cloned().unwrap_or_default() {
                                rep.bump(&format!("c17/reduced_features/{}/{}", name, k.as_str().unwrap_or("?")));
                            }
                            for viol in v["violations"].as_array().cloned().unwrap_or_default() {
                                rep.violate("C17", viol[0].as_str().unwrap_or("?").to_string(), viol[1].as_str().unwrap_or("").to_string(), json!({"engine": "harness-min/route.rs", "build": name, "cell": viol[1]}));
                            }
                        }
                        Err(e) => rep.inconclusive.push(format!("reduced-features run [{}]: unreadable output: {}", name, e)),
                    },
                    Ok(out) => rep.inconclusive.push(format!("reduced-features run [{}] failed: {} {}", name, out.status, String::from_utf8_lossy(&out.stderr).chars().take(300).collect::<String>())),
                    Err(e) => rep.inconclusive.push(format!("reduced-features run [{}] could not start: {}", name, e)),
                }
            }
        }
        Err(_) => rep.inconclusive.push("VERIF_FEAT_BINS is not set: run this check through ./check, which builds the reduced-features harnesses".into()),
    }
    rep.rule = RULE.into();
    rep.exhaustive = Some(rep.count("c17/stopped_by_deadline") == 0 && rep.violations.is_empty());
    rep.assume("the cells above run in this binary (cw-multi-test with staking, stargate, cosmwasm_2_2); a smaller matrix (kind x origin x accepting/failing) runs in vcheck-c17-feat on builds with the feature sets default, cosmwasm_2_0, stargate, staking, staking+stargate+cosmwasm_1_4");
    rep.assume("QueryRequest::Distribution is not generated: the architecture has no module whose query type accepts it");
    rep.assume("CosmosMsg::Custom cannot be expressed by a contract written against Empty; SudoMsg::Custom is unimplemented by design and not exercised");
    rep.assume("wasm messages are routed to the real WasmKeeper (observed through the contracts' trace in C01-C05)");
    for k in ["c17/configurations", "c17/log_entries_checked", "c17/failed_tx_state_unchanged_checks", "c17/caught_failure_rollback_checks", "c17/reply_data_from_module_checked", "c17/reply_after_module_answer/no-data+no-events", "c17/reply_after_module_answer/data+events", "c17/sudo/staking", "c17/same_submessage_listed_twice", "c17/empty_chain/top/accepting", "c17/empty_chain/contract-with-reply/accepting", "c17/empty_chain/contract/failing", "c17/multi/all-accepted", "c17/multi/message-0-fails", "c17/multi/message-1-fails", "c17/multi/message-2-fails", "c17/builtin/all-accepting/Gov/lifted/accepting", "c17/builtin/all-failing/Any/puppet/failing", "c17/bulk/one-response-with-over-256-messages", "c17/attached_funds_cells", "c17/bulk/one-batch-with-over-256-messages", "c17/reduced_features/default/cells", "c17/reduced_features/cosmwasm_2_0/msg:any", "c17/reduced_features/cosmwasm_2_0/query:grpc", "c17/reduced_features/stargate/msg:gov", "c17/reduced_features/staking/msg:distribution", "c17/reduced_features/staking+stargate+cosmwasm_1_4/cells"] {
        rep.require(k);
    }
    rep
}
