//! C14 / C15 / C16 — one staking engine run serves the three properties; each check reports the
//! discrepancies tagged with its own property and uses the operation mix that stresses it.

use crate::core::*;
use crate::engines::e4_staking::*;
use crate::rng::{derive, Rng};
use serde_json::{json, Value};

const RULE: &str = "cases = staking histories of 30-80 steps over 3 delegators (two users and a contract acting through \
sub-messages) x 2-3 validators with different commissions, apr and unbonding time fixed per history: delegate, undelegate, \
redelegate, reward withdrawal, withdraw-address change, slash (0, 1%, 10%, 25%, 1/3, 40%, 50%, 90%, 100%, >100%, unknown validator), \
block-time advances {0,1,59,60,61,unbonding-1,unbonding,3600,30d,400d,random}; amounts 1-12 and 10^3-10^6 aimed at the delegated amount \
boundary. After EVERY step: expected accept/reject, byte-identical storage after a rejection, every (delegator,validator) delegation, \
AllDelegations, every bank balance incl. the staking pool (raw ledger scan) against an exact-rational model with a FIFO unbonding queue; \
reward bounds per delegation period; slash intervals; panic monitor; structural monitor over the raw staking namespace; a split-time twin \
instance. distinct_nontrivial = distinct (parameters, op-kind sequence, final delegations) of histories that end with a positive delegation or saw a slash.";

fn record(rep: &mut Report, case: &Case, fails: Vec<Fail>, twin: bool) {
    for (prop, sig, detail) in fails {
        rep.violate(&prop, sig, detail.clone(), json!({"engine": "e4_staking", "case": case, "with_twin": twin, "first_discrepancy": detail}));
    }
}

pub fn run(ctx: &Ctx) -> Report {
    let prop = ctx.prop.clone();
    let (mix, with_twin) = match prop.as_str() {
        "C15" => (Mix::RewardHeavy, true),
        "C16" => (Mix::SlashHeavy, false),
        _ => (Mix::Uniform, false),
    };
    let mut rep = parallel(ctx.workers, |w| {
        let mut rep = Report::new();
        if w == 0 {
            for (name, case) in templates() {
                rep.bump(&format!("stk/template/{}", name));
                let fails = run_case(&case, with_twin, &mut rep);
                record(&mut rep, &case, fails, with_twin);
            }
        }
        let n = ctx.scale(600, 16 * 25_000) / ctx.workers as u64;
        let mut rng = Rng::new(derive(ctx.seed, &prop, w as u64, 0));
        for i in 0..n {
            if ctx.expired() {
                rep.bump("stk/stopped_by_deadline");
                break;
            }
            let len = rng.range(30, 80) as usize;
            // every check also runs a share of the other mixes
            let m = match rng.below(4) {
                0 => Mix::Uniform,
                1 => Mix::RewardHeavy,
                2 => Mix::SlashHeavy,
                _ => mix,
            };
            let (case, fails) = run_random(&mut rng, len, m, with_twin, &mut rep);
            rep.bump("stk/histories");
            if w == 0 && i == 0 {
                let mut short = case.clone();
                short.ops.truncate(15);
                rep.sample(json!(short));
            }
            record(&mut rep, &case, fails, with_twin);
        }
        rep
    });
    rep.rule = RULE.into();
    rep.assume("block times are whole seconds and never decrease; staking parameters are fixed at setup");
    rep.assume("amounts <= 10^6 per operation, balances 10^8, total elapsed time <= ~80 years: far from the 18-decimal fixed-point range");
    rep.assume("a valid undelegate/redelegate is required to succeed only while the source validator has never been slashed");
    rep.assume("delegations whose displayed amount is 0 (sub-token dust) are outside 'a delegation stays positive' and are not asserted");
    let req: &[&str] = match prop.as_str() {
        "C14" => &["stk/op/delegate/valid", "stk/op/delegate/invalid", "stk/op/undelegate/valid", "stk/op/undelegate/invalid", "stk/op/redelegate/valid", "stk/op/redelegate/invalid", "stk/op/advance/valid", "stk/unbonding_paid/unslashed", "stk/unbonding_paid/slashed_while_pending", "stk/failed_op_state_unchanged_checks", "stk/balance_compared", "stk/structural_checks"],
        "C15" => &["stk/op/withdraw/unspecified-ok", "stk/op/withdraw/unspecified-err", "stk/op/set_withdraw_address/valid", "stk/reward_bounds_checked", "stk/reward_bounds_checked_after_withdrawals", "stk/others_pending_unchanged_checks", "stk/twin_steps_compared", "stk/twin_reward_values_compared", "stk/pending_vs_raw_state_checked"],
        _ => &["stk/op/slash/valid", "stk/op/slash/invalid", "stk/slash_scaled_delegations_checked", "stk/slash_scaled_pending_unbondings", "stk/slash_other_validator_unchanged_checks", "stk/slash_rewards_unchanged_checks", "stk/unbonding_paid/slashed_while_pending"],
    };
    for k in req {
        rep.require(k);
    }
    rep
}

pub fn replay(_ctx: &Ctx, w: &Value) -> Report {
    let mut rep = Report::new();
    let case: Case = serde_json::from_value(w["case"].clone()).expect("case");
    let twin = w["with_twin"].as_bool().unwrap_or(false);
    let fails = run_case(&case, twin, &mut rep);
    record(&mut rep, &case, fails, twin);
    rep
}
