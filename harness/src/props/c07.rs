//! C07 — namespaced storage views are exact, disjoint windows onto the base store.

use crate::core::*;
use crate::engines::e2_views::*;
use crate::rng::{derive, Rng};
use serde_json::{json, Value};

const RULE: &str = "cases = operation sequences (set/remove through App::prefixed_storage_mut / \
prefixed_multilevel_storage_mut, raw writes through storage_mut, rejected writes through read-only views, \
full inspections) over namespace paths of 0-3 segments drawn from {'', a, ab, 00, 0001, FF, FFFF, wasm, bank, \
256-byte 00/FF runs, 65535-byte segments (thorough + templates)} and keys built to collide with other paths' \
encoded prefixes. After every op the WHOLE raw store is compared with a BTreeMap model (independent 2-byte \
length-prefix encoder) and the touched view's get/range (bound pairs x both orders) with the model window. \
distinct_nontrivial = distinct (encoded prefix, window size) pairs of non-empty views compared.";

fn report_failure(rep: &mut Report, case: &Case, sig: &str, detail: &str) {
    rep.violate("C07", sig, detail.to_string(), json!({"engine": "e2_views", "case": case, "first_discrepancy": detail}));
}

pub fn run(ctx: &Ctx) -> Report {
    let thorough = ctx.tier.is_thorough();
    let mut rep = parallel(ctx.workers, |w| {
        let mut rep = Report::new();
        if w == 0 {
            for case in templates() {
                rep.bump("c07/template_cases");
                if let Some((sig, detail)) = run_case(&case, &mut rep) {
                    report_failure(&mut rep, &case, &sig, &detail);
                }
            }
        }
        let n = ctx.scale(3000, 16 * 25_000) / ctx.workers as u64;
        let mut rng = Rng::new(derive(ctx.seed, "C07", w as u64, 0));
        for i in 0..n {
            if i % 64 == 0 && ctx.expired() {
                rep.bump("c07/stopped_by_deadline");
                break;
            }
            let huge = thorough && rng.chance(1, 50);
            let case = gen_random(&mut rng, huge);
            rep.bump("c07/random_cases");
            if w == 0 && i < 2 {
                rep.sample(json!(case));
            }
            if let Some((sig, detail)) = run_case(&case, &mut rep) {
                report_failure(&mut rep, &case, &sig, &detail);
            }
        }
        rep
    });
    rep.rule = RULE.into();
    rep.assume("segments are at most 65535 bytes (longer ones are documented to panic)");
    rep.assume("values are non-empty");
    rep.assume("views are obtained through App's public accessors over the default MockStorage");
    for k in ["c07/op_set", "c07/op_remove", "c07/op_raw_set", "c07/readonly_write_attempts", "c07/readonly_write_attempts_with_the_value_already_there", "c07/path_pairs/unrelated", "c07/path_pairs/q-extends-p", "c07/range_compared", "c07/whole_store_compared", "c07/views_compared/segs0", "c07/views_compared/segs1", "c07/op_session_mutable", "c07/op_session_readonly", "c07/held_view_reads_compared"] {
        rep.require(k);
    }
    rep
}

pub fn replay(_ctx: &Ctx, w: &Value) -> Report {
    let mut rep = Report::new();
    let case: Case = serde_json::from_value(w["case"].clone()).expect("case");
    if let Some((sig, detail)) = run_case(&case, &mut rep) {
        report_failure(&mut rep, &case, &sig, &detail);
    }
    rep
}
