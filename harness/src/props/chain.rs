//! C01–C05, C08, C10–C13 — all served by the chain engine (E1); each check selects the workload
//! mix that stresses its property and reports the discrepancies tagged with it.

use crate::core::*;
use crate::engines::e1_chain::*;
use crate::model::chain::ApiKind;
use crate::engines::e1_gen::Profile;
use crate::engines::e1_run::*;
use crate::puppet::RMode;
use crate::rng::{derive, Rng};
use serde_json::{json, Value};

fn rule(prop: &str) -> String {
    let common = "cases = top-level transactions (execute, execute_multi of 1-4 messages, sudo / wasm_sudo, bank mint, Executor helpers) \
carrying generated message trees (depth <= 5, fan-out <= 3, <= 24 nodes) of scripted contracts (two code flavours: direct Contract impl with the \
chain's custom message type, and an Empty-typed contract lifted by ContractWrapper::new_with_empty), bank sends/burns, instantiate/instantiate2, migrate, \
admin changes and custom-module messages, in histories of setup + 10-40 transactions over 3 users and up to ~12 contracts from several codes \
(non-contiguous and duplicated code ids). Every node can fail (contract error, invalid attribute/event, overdraft, zero coins, unknown contract, \
invalid address, duplicate salted address, empty label, missing code, unauthorised admin op, failing custom message); all four reply modes; reply scripts \
may write, dispatch and fail. After EVERY transaction: Ok/Err, responses (events, data), the out-of-band invocation trace (entry point, code, sender, funds, \
block, own balance, own storage dump and probe results at entry, reply id/payload/result) and the decoded raw chain state (bank ledger, contract registry, \
every contract's storage byte for byte) are compared with the reference model; Err => raw storage byte-identical.";
    let specific = match prop {
        "C01" => "Failure sweep: every generated tree is also run with node k failing uncaught, for every k. distinct_nontrivial = distinct tree shapes of transactions that failed after writing state (or multi-message transactions that succeeded).",
        "C02" => "distinct_nontrivial = distinct tree shapes with at least one failing sub-message whose subtree had changed state.",
        "C03" => "distinct_nontrivial = distinct tree shapes containing sub-messages (reply expected or forbidden).",
        "C04" => "distinct_nontrivial = distinct (tree shape x data/event presence) of transactions with at least two contract invocations.",
        "C05" => "distinct_nontrivial = distinct tree shapes with call chains of depth >= 2 or attached funds.",
        "C08" => "Keys are crafted to spell other modules' and other contracts' raw prefixes. distinct_nontrivial = distinct tree shapes in which at least two contracts ran.",
        "C10" => "distinct_nontrivial = distinct tree shapes in which contracts issued queries (each twice).",
        "C11" => "distinct_nontrivial = distinct tree shapes that instantiated a contract or hit a registry rule.",
        "C12" => "distinct_nontrivial = distinct tree shapes containing migrate / update-admin / clear-admin.",
        "C13" => "distinct_nontrivial = distinct tree shapes that emitted attributes / events.",
        _ => "",
    };
    format!("{} {}", common, specific)
}

fn profile_for(prop: &str) -> Profile {
    let mut p = Profile::base();
    match prop {
        "C01" => {
            p.fail_pct = 5;
            p.max_nodes = 16;
        }
        "C02" => {
            p.fail_pct = 30;
            p.write_pct = 90;
        }
        "C03" => {
            p.fail_pct = 25;
            p.fanout = 3;
        }
        "C04" => {
            p.fail_pct = 12;
            p.rich_output = true;
        }
        "C05" => {
            p.funds_pct = 70;
            p.fail_pct = 8;
        }
        "C08" => {
            p.crafted_keys = true;
            p.write_pct = 95;
            p.probe_pct = 70;
            p.fail_pct = 8;
        }
        "C10" => {
            p.probe_pct = 95;
            p.fail_pct = 25;
        }
        "C11" => {
            p.registry_pct = 45;
            p.fail_pct = 12;
            p.code_ops_pct = 12;
        }
        "C12" => {
            p.admin_pct = 40;
            p.registry_pct = 8;
            p.fail_pct = 10;
        }
        "C13" => {
            p.bad_attr_pct = 18;
            p.fail_pct = 5;
        }
        _ => {}
    }
    p
}

fn record(rep: &mut Report, case: &Case, discs: Vec<Disc>) {
    for d in discs {
        for p in &d.props {
            rep.violate(p, d.sig.clone(), d.detail.clone(), json!({"engine": "e1_chain", "case": case, "first_discrepancy": d.detail}));
        }
    }
}

pub fn run(ctx: &Ctx) -> Report {
    let prop = ctx.prop.clone();
    let profile = profile_for(&prop);
    let sweep = prop == "C01";
    let mut rep = parallel(ctx.workers, |w| {
        let mut rep = Report::new();
        let mut rng = Rng::new(derive(ctx.seed, &prop, w as u64, 0));
        if prop == "C11" && w == 0 {
            // registries far larger than a history builds: code ids beyond one and two bytes, instance numbers beyond one
            // byte (thorough: beyond two)
            let (codes, insts) = if ctx.tier.is_thorough() { (70_000, 66_000) } else { (66_000, 300) };
            for dsc in crate::engines::e1_scale::registry_scale_pass(&mut rep, codes, insts, ctx.seed, &|| ctx.expired_at(35)) {
                for p in &dsc.props {
                    rep.violate(p, dsc.sig.clone(), dsc.detail.clone(), json!({"engine": "e1_scale", "codes": codes, "instances": insts, "first_discrepancy": dsc.detail}));
                }
            }
        }
        let n = ctx.scale(if sweep { 400 } else { 1600 }, 16 * if sweep { 12000 } else { 40000 }) / ctx.workers as u64;
        for i in 0..n.max(1) {
            if ctx.expired_at(70) {
                rep.bump("e1/stopped_by_deadline");
                break;
            }
            let mut profile = profile.clone();
            if ctx.tier.is_thorough() && i % 2 == 1 {
                // deeper and larger trees
                profile.max_depth = 6;
                profile.max_nodes = 40;
            }
            let opts = HistoryOpts { profile: profile.clone(), len: rng.range(10, if sweep { 14 } else { 40 }) as usize, sweep, matrix: (i == 0 && w < 2) || (prop == "C12" && i % 8 == 0), api: match i % 5 { 3 => ApiKind::Bech32, 4 => ApiKind::Bech32m, 1 if i % 10 == 6 => ApiKind::Plain, _ => ApiKind::Std }, prestored: i % 4 == 1, one_address_per_code: i % 12 == 7 || i % 20 == 16 };
            let (case, discs) = run_history(&mut rng, &opts, &mut rep, &prop);
            rep.bump("e1/histories");
            if w == 0 && i == 1 {
                let mut short = Case { ops: case.ops.iter().skip(17).take(2).cloned().collect(), api: case.api, prestored: case.prestored, one_address_per_code: case.one_address_per_code };
                if short.ops.is_empty() {
                    short = Case { ops: case.ops.iter().take(2).cloned().collect(), api: case.api, prestored: case.prestored, one_address_per_code: case.one_address_per_code };
                }
                rep.sample(json!(short));
            }
            record(&mut rep, &case, discs);
        }
        if prop == "C10" && w == 0 {
            // the constructive staking histories (long unbonding queue, well over a hundred validators, ...)
            for (name, case) in crate::engines::e4_staking::templates() {
                rep.bump("e1/staking_query_templates");
                for (p, sig, detail) in crate::engines::e4_staking::run_case(&case, false, &mut rep) {
                    rep.violate(&p, sig, detail.clone(), json!({"engine": "e4_staking", "template": name, "case": case, "with_twin": false, "first_discrepancy": detail}));
                }
            }
        }
        if prop == "C10" {
            // staking queries against the committed raw state (discrepancies tagged C10 by the staking engine)
            let n = ctx.scale(240, 16 * 4000) / ctx.workers as u64;
            for _ in 0..n.max(1) {
                if ctx.expired_at(85) {
                    break;
                }
                let len = rng.range(20, 50) as usize;
                let (case, fails) = crate::engines::e4_staking::run_random(&mut rng, len, crate::engines::e4_staking::Mix::RewardHeavy, false, &mut rep);
                rep.bump("e1/staking_query_histories");
                for (p, sig, detail) in fails {
                    rep.violate(&p, sig, detail.clone(), json!({"engine": "e4_staking", "case": case, "with_twin": false, "first_discrepancy": detail}));
                }
            }
        }
        if prop == "C02" && w < 4 {
            // sub-messages to every other kind of module (recording modules that write before they fail): a caught
            // failure leaves none of the module's writes, earlier siblings' effects stay, an uncaught one fails it all
            use crate::engines::e5_routing::{exec_cell, Ent, Kind, Origin, RWorld, MODULES};
            let mut world = RWorld::new();
            let mut n = 0u64;
            for cfg in (w as u32..64).step_by(4) {
                {
                    let mut f = world.hub.failing.borrow_mut();
                    for (i, m) in MODULES.iter().enumerate() {
                        f.insert(m, cfg >> i & 1 == 1);
                    }
                }
                for k in [Kind::Staking, Kind::Distribution, Kind::Custom, Kind::Ibc, Kind::Gov, Kind::Stargate, Kind::Any, Kind::BankEmpty] {
                    for o in [Origin::Puppet(1), Origin::Puppet(2), Origin::Lifted(1)] {
                        for mode in [RMode::Error, RMode::Always, RMode::Success, RMode::Never] {
                            for sib in [false, true] {
                                n += 1;
                                rep.bump("e1/module_submsg_cells");
                                if let Some((sig, detail)) = exec_cell(&mut world, k, o, Ent::Execute, mode, sib, n + cfg as u64 * 10_000, &mut rep) {
                                    if ["caught-module-failure-left-its-writes", "earlier-sibling-effect-lost", "failed-transaction-left-state-changes", "failing-module-error-swallowed", "failing-module-did-not-abort-transaction", "accepted-module-effect-lost", "module-failure-not-reported-to-reply"].contains(&sig.as_str()) {
                                        rep.violate("C02", sig, detail.clone(), json!({"engine": "e5_routing", "cell": detail, "configuration": cfg}));
                                    }
                                    let failing = world.hub.failing.borrow().clone();
                                    world = RWorld::new();
                                    *world.hub.failing.borrow_mut() = failing;
                                }
                            }
                        }
                    }
                }
            }
        }
        if prop == "C01" || prop == "C10" {
            // trees with staking / distribution / ibc / gov messages: model-free invariants only
            let n = ctx.scale(240, 16 * 3000) / ctx.workers as u64;
            for _ in 0..n.max(1) {
                if ctx.expired() {
                    break;
                }
                let len = rng.range(8, 20) as usize;
                let (case, discs) = run_opaque_history(&mut rng, len, &mut rep);
                rep.bump("e1/opaque/histories");
                for d in discs {
                    for p in &d.props {
                        rep.violate(p, d.sig.clone(), d.detail.clone(), json!({"engine": "e1_opaque", "case": case, "first_discrepancy": d.detail}));
                    }
                }
            }
        }
        rep
    });
    rep.rule = rule(&prop);
    rep.assume("storage values are non-empty; amounts <= 10^6; trees of depth <= 5 and <= 24 nodes; block infos set by the harness");
    rep.assume("error strings are never compared and never enter chain state (RUST_BACKTRACE cleared)");
    rep.assume("contracts observe (probe) at entry, before their own writes: a contract's view of its own in-flight writes through the querier is not asserted");
    rep.assume("messages for staking/distribution/ibc/gov/stargate are outside the chain model (see C14-C17)");
    rep.assume("a transfer that would take the recipient's balance beyond the 128-bit range has to fail without effect; the simulator's panic in checked arithmetic counts as that failure");
    rep.assume("address codec per history: cosmwasm_std MockApi (3 of 5), the crate's MockApiBech32 / MockApiBech32m with prefix cosmwasm (1 of 5 each); addresses are now and then respelled (non-zero padding bits, upper case), which every codec must reject");
    let req: Vec<String> = match prop.as_str() {
        "C01" => vec!["e1/atomicity/err_state_unchanged_checks".into(), "e1/sweep/failure_points".into(), "e1/tx/multi/ok".into(), "e1/tx/multi/err".into(), "e1/tx/sudo/err".into(), "e1/tx/wasm_sudo/err".into(), "e1/tx/exec-helper/ok".into(), "e1/tx/mint/err".into(), "e1/opaque/err_state_unchanged_checks".into(), "e1/opaque/multi_equals_sequence_checks".into(), "e1/addr/call-to-a-contract-created-earlier-in-this-transaction".into()],
        "C02" | "C03" => {
            let mut v = vec![];
            for mode in ["Always", "Error", "Success", "Never"] {
                for depth in 1..=3 {
                    v.push(format!("e1/submsg/{}/child-ok/{}/depth{}", mode, if mode == "Always" || mode == "Success" { "reply-ok" } else { "no-reply" }, depth));
                    v.push(format!("e1/submsg/{}/child-failed/{}/depth{}", mode, if mode == "Always" || mode == "Error" { "reply-ok" } else { "no-reply" }, depth));
                }
            }
            v.push("e1/submsg/Always/child-failed/reply-failed/depth1".into());
            v.push("e1/submsg/Success/child-ok/reply-failed/depth1".into());
            v.push("e1/rolled_back_changes_checked".into());
            v.push("e1/trace/transactions_with_20_or_more_invocations".into());
            if prop == "C02" {
                v.push("e1/module_submsg_cells".into());
                v.push("c17/caught_failure_rollback_checks".into());
            }
            v
        }
        "C04" => vec!["e1/data/data-overridden-by-reply".into(), "e1/data/reply-without-data-keeps-previous".into(), "e1/data/submsg-data-dropped-without-reply".into(), "e1/data/execute-no-data".into(), "e1/data/instantiate-no-data".into(), "e1/responses/events_compared".into(), "e1/entry/Migrate".into(), "e1/entry/Sudo".into()],
        "C05" => vec!["e1/entries_with_funds".into(), "e1/failure/Overdraft/propagated".into(), "e1/entry/Instantiate".into(), "e1/entry/Reply".into(), "e1/entry/Sudo".into(), "e1/entry/Migrate".into(), "e1/block_changes".into(), "e1/block_changes/same_height".into(), "e1/block_changes/to_a_lower_height".into(), "e1/addr/respelled-address-rejected".into()],
        "C08" => vec!["e1/accessors/writes_through_contract_storage_mut".into(), "e1/accessors/contracts_compared".into(), "e1/accessors/raw_queries_compared".into(), "e1/state/contract_storages_compared".into()],
        "C10" => vec!["e1/purity/queries_issued_twice".into(), "e1/purity/storage_unchanged_checks".into(), "e1/trace/probes_compared".into(), "e1/staking_query_histories".into(), "stk/pending_vs_raw_state_checked".into()],
        "C11" => vec!["e1/scale/codes_stored".into(), "e1/scale/instantiations".into(), "e1/scale/instances_revisited".into(), "e1/registry/store_code/auto".into(), "e1/registry/store_code/chosen".into(), "e1/registry/duplicate_code/valid".into(), "e1/failure/DuplicateAddress/top-level".into(), "e1/failure/EmptyLabel/propagated".into(), "e1/failure/NoSuchCode/propagated".into(), "e1/accessors/code_info_compared".into()],
        "C12" => vec!["e1/failure/NotAdmin/propagated".into(), "e1/entry/Migrate".into(), "e1/addr/respelled-address-rejected".into(), "e1/failure/NoEntryPoint/top-level".into(), "e1/admin_matrix_histories".into()],
        "C13" => vec!["e1/failure/BadAttribute/propagated".into(), "e1/failure/BadAttribute/caught".into(), "e1/attr_and_event_strings".into()],
        _ => vec![],
    };
    for k in req {
        rep.require(&k);
    }
    rep
}

pub fn replay(ctx: &Ctx, w: &Value) -> Report {
    let mut rep = Report::new();
    if w["engine"] == "e4_staking" {
        return crate::props::staking_replay(ctx, w);
    }
    if w["engine"] == "e1_scale" {
        for dsc in crate::engines::e1_scale::registry_scale_pass(&mut rep, w["codes"].as_u64().unwrap_or(66_000), w["instances"].as_u64().unwrap_or(300), ctx.seed, &|| false) {
            for p in &dsc.props {
                rep.violate(p, dsc.sig.clone(), dsc.detail.clone(), json!({"engine": "e1_scale", "codes": w["codes"], "instances": w["instances"], "first_discrepancy": dsc.detail}));
            }
        }
        return rep;
    }
    let case: Case = serde_json::from_value(w["case"].clone()).expect("case");
    let discs = if w["engine"] == "e1_opaque" { replay_opaque(&case, &mut rep) } else { run_case(&case, &mut rep, &ctx.prop) };
    record(&mut rep, &case, discs);
    rep
}
