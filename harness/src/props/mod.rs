//! Per-property workload mix + oracle selection + evidence.

use crate::core::*;
use serde_json::Value;

mod c06;
mod c07;
mod c09;
mod c18;
mod staking;
mod chain;
mod c17;
mod c19;

pub fn run(ctx: &Ctx) -> Option<Report> {
    Some(match ctx.prop.as_str() {
        "C06" => c06::run(ctx),
        "C07" => c07::run(ctx),
        "C09" => c09::run(ctx),
        "C18" => c18::run(ctx),
        "C17" => c17::run(ctx),
        "C19" => c19::run(ctx),
        "C14" | "C15" | "C16" => staking::run(ctx),
        "C01" | "C02" | "C03" | "C04" | "C05" | "C08" | "C10" | "C11" | "C12" | "C13" => chain::run(ctx),
        _ => return None,
    })
}

pub fn replay(ctx: &Ctx, doc: &Value) -> Option<Report> {
    let w = doc.get("witness")?;
    Some(match ctx.prop.as_str() {
        "C06" => c06::replay(ctx, w),
        "C07" => c07::replay(ctx, w),
        "C09" => c09::replay(ctx, w),
        "C18" => c18::replay(ctx, w),
        "C19" => c19::replay(ctx, w),
        "C14" | "C15" | "C16" => staking::replay(ctx, w),
        "C01" | "C02" | "C03" | "C04" | "C05" | "C08" | "C10" | "C11" | "C12" | "C13" => chain::replay(ctx, w),
        _ => return None,
    })
}

pub fn c19_child(args: &[String]) {
    c19::child(args);
}

pub fn staking_replay(ctx: &Ctx, w: &Value) -> Report {
    staking::replay(ctx, w)
}
