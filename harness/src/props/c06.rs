//! C06 — the transactional KV overlay behaves exactly like an ordered map over its base.

use crate::core::*;
use crate::engines::e2_overlay::*;
use crate::rng::{derive, Rng};
use serde_json::{json, Value};

const RULE: &str = "cases = (base content, nested set/remove program with commit/discard per level); \
exhaustive part enumerates every base subset x every op sequence of the stated length on one level \
(plus one nested variant each); random part draws keys from bytes {00,01,61,62,FF} (len 0-3), \
caches stacked to depth 5, one third driven through transactional(). After EVERY op: get for every \
key of the case universe and range for sampled (all, at level end) bound pairs x both orders are compared \
with a BTreeMap model. distinct_nontrivial = number of distinct merge shapes (sequence of \
overlay-set / overlay-delete / base-only / set-over-base / delete-over-base steps the merge iterator \
consumed, per order) with at least two steps, counted with a hash set.";

fn report_failure(rep: &mut Report, case: &Case, sig: &str, detail: &str) {
    rep.violate("C06", sig, detail.to_string(), json!({"engine": "e2_overlay", "case": case, "first_discrepancy": detail}));
}

pub fn run(ctx: &Ctx) -> Report {
    let thorough = ctx.tier.is_thorough();
    let mut rep = parallel(ctx.workers, |w| {
        let mut rep = Report::new();
        // exhaustive small scope
        let u6: [&[u8]; 6] = [b"", &[0x00], &[0x61], &[0x61, 0x00], &[0x61, 0x62], &[0xFF]];
        let (len, op_keys): (usize, Vec<&[u8]>) = if thorough {
            (5, vec![b"", &[0x61], &[0x61, 0x00], &[0xFF]])
        } else {
            (4, vec![&[0x61], &[0x61, 0x00], &[0xFF]])
        };
        let base_keys: [&[u8]; 4] = [b"", &[0x61], &[0x61, 0x62], &[0xFF]];
        let fails = exhaustive(&mut rep, len, &op_keys, &base_keys, &u6, w, ctx.workers, ctx.deadline);
        for (case, sig, detail) in fails {
            report_failure(&mut rep, &case, &sig, &detail);
        }
        rep.extra.insert(
            "exhaustive_scope".into(),
            json!({"op_sequence_length": len, "op_keys": op_keys.iter().map(|k| hex(k)).collect::<Vec<_>>(),
                   "base_subsets_of": base_keys.iter().map(|k| hex(k)).collect::<Vec<_>>(),
                   "bounds_universe": u6.iter().map(|k| hex(k)).collect::<Vec<_>>()}),
        );
        // random nested programs
        let n = ctx.scale(2500, 16 * 12_000) / ctx.workers as u64;
        let mut rng = Rng::new(derive(ctx.seed, "C06", w as u64, 0));
        for i in 0..n {
            if i % 64 == 0 && ctx.expired() {
                rep.bump("c06/stopped_by_deadline");
                break;
            }
            let case = gen_random(&mut rng, 5);
            rep.bump("c06/random_cases");
            if w == 0 && i < 3 {
                rep.sample(case_json(&case));
            }
            if let Some((sig, detail)) = run_case(&case, &mut rep) {
                report_failure(&mut rep, &case, &sig, &detail);
            }
        }
        rep
    });
    rep.rule = RULE.into();
    rep.assume("values are non-empty (the in-memory base store rejects empty values)");
    rep.assume("base store = cosmwasm_std MemoryStorage or another overlay (stacked caches)");
    rep.assume("the private write-cache is reached through the doc-hidden pass-through wrappers of cargo feature `verif`");
    for k in ["c06/levels_at_depth_1", "c06/levels_at_depth_2", "c06/levels_at_depth_3", "c06/commit", "c06/discard", "c06/helper_commit", "c06/helper_discard", "c06/range_compared", "c06/inverted_or_equal_bounds", "c06/op_set_after_delete", "c06/op_overwrite", "c06/op_remove_absent", "c06/iterator_adaptors_compared"] {
        rep.require(k);
    }
    rep
}

pub fn replay(_ctx: &Ctx, w: &Value) -> Report {
    let mut rep = Report::new();
    let case: Case = serde_json::from_value(w["case"].clone()).expect("case");
    if let Some((sig, detail)) = run_case(&case, &mut rep) {
        report_failure(&mut rep, &case, &sig, &detail);
    }
    rep
}
