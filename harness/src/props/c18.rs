//! C18 — address helpers are total, consistent and reject foreign or malformed input.

use crate::core::*;
use crate::engines::e6_codec::*;
use crate::rng::{derive, Rng};
use serde_json::{json, Value};

const RULE: &str = "cases = (codec variant Bech32|Bech32m, lowercase prefix of length 1-12, 20 or 83 from the HRP alphabet incl. \
punctuation and '1', canonical bytes of EVERY length 1..64 with random / all-00 / all-FF contents): round trip, equality with the \
bech32 crate's reference encoding, validate returns the string unchanged, other variant / foreign prefixes rejected; for swept \
addresses EVERY position x EVERY other bech32 charset character (data part), 5 hrp characters (prefix part), invalid characters \
and a case flip of every letter must be rejected. Names: addr_make / IntoBech32(m) / IntoAddr deterministic, valid under their own \
codec, distinct across names, prefixes and variants. Insertions, deletions, '1' substitutions and all-uppercase forms are counted as \
observations, never judged. distinct_nontrivial = distinct (variant, prefix, canonical) triples that received the full substitution sweep.";

fn report_failure(rep: &mut Report, case: &Case, sig: &str, detail: &str) {
    rep.violate("C18", sig, detail.to_string(), json!({"engine": "e6_codec", "case": case, "first_discrepancy": detail}));
}

pub fn run(ctx: &Ctx) -> Report {
    let thorough = ctx.tier.is_thorough();
    let mut rep = parallel(ctx.workers, |w| {
        let mut rep = Report::new();
        let mut rng = Rng::new(derive(ctx.seed, "C18", w as u64, 0));
        let rounds = ctx.scale(200, 16 * 1500) / ctx.workers as u64;
        let mut fixed: Vec<String> = vec!["cosmwasm".into(), "osmo".into(), "a".into(), "juno".into(), "a1b".into(), "x".repeat(83)];
        for round in 0..rounds.max(1) {
            if ctx.expired() {
                rep.bump("c18/stopped_by_deadline");
                break;
            }
            let prefix = if w == 0 && !fixed.is_empty() { fixed.remove(0) } else { gen_prefix(&mut rng) };
            for variant in [Variant::Bech32, Variant::Bech32m] {
                for len in 1..=64usize {
                    let reps = if thorough { 2 } else { 1 };
                    for r in 0..reps {
                        let bytes = gen_bytes(&mut rng, len);
                        // sweep budget: a few lengths per (prefix, variant); every length over the rounds
                        let sweep = r == 0 && (len as u64 + round + w as u64) % (if thorough { 4 } else { 16 }) == 0;
                        let case = Case::Address { variant, prefix: prefix.clone(), canonical: hex(&bytes), sweep };
                        if rep.samples.len() < 3 && sweep {
                            rep.sample(json!(case));
                        }
                        if let Some((sig, detail)) = run_case(&case, &mut rep) {
                            report_failure(&mut rep, &case, &sig, &detail);
                        }
                    }
                }
            }
            let mut names: Vec<String> = (0..6).map(|_| gen_name(&mut rng)).collect();
            // near misses of one of the names (other case, padding, characters with equal low bytes, ...)
            let base = if rng.chance(1, 2) { names[rng.usize_below(names.len())].clone() } else { rng.pick(&["Aukasz", "owner", "é", "名前", "a"]).to_string() };
            if !base.is_empty() {
                names.push(base.clone());
                names.extend(crate::engines::e6_codec::name_variants(&base));
                rep.bump("c18/name_cases_with_near_miss_names");
            }
            // long names that agree on a long prefix (64 to 4096 bytes) and differ behind it
            {
                let n = *rng.pick(&[63usize, 64, 65, 127, 128, 129, 255, 256, 1024, 4096]);
                let common: String = (0..n).map(|i| (b'a' + (i % 26) as u8) as char).collect();
                names.push(format!("{}x", common));
                names.push(format!("{}y", common));
                names.push(common);
            }
            // names that are themselves valid addresses of this codec (an address made from a name, a humanized byte string)
            {
                use cosmwasm_std::Api;
                let api32 = cw_multi_test::MockApiBech32::new(Box::leak(prefix.clone().into_boxed_str()));
                let api32m = cw_multi_test::MockApiBech32m::new(Box::leak(prefix.clone().into_boxed_str()));
                names.push(api32.addr_make(&names[0]).to_string());
                names.push(api32m.addr_make(&names[1]).to_string());
                if let Ok(a) = api32.addr_humanize(&cosmwasm_std::CanonicalAddr::from(gen_bytes(&mut rng, 20))) {
                    names.push(a.to_string());
                }
            }
            let case = Case::Names { prefix: prefix.clone(), names };
            if let Some((sig, detail)) = run_case(&case, &mut rep) {
                report_failure(&mut rep, &case, &sig, &detail);
            }
            for len in [1usize, 20, 32, 64, rng.range(1, 64) as usize] {
                let case = Case::Default { prefix: prefix.clone(), canonical: hex(&gen_bytes(&mut rng, len)) };
                if let Some((sig, detail)) = run_case(&case, &mut rep) {
                    report_failure(&mut rep, &case, &sig, &detail);
                }
            }
        }
        rep
    });
    rep.rule = RULE.into();
    rep.assume("prefixes are canonical lower-case HRPs (1-83 chars); with an upper-case prefix the encoder emits a lower-case address that is then compared with the configured upper-case prefix — recorded as an observation in DESIGN.md, not asserted");
    rep.assume("only substitutions and case flips are judged; Bech32 (not Bech32m) tolerates q-insertion/deletion before a final p, and '1' substitutions re-frame the string");
    rep.assume("the bech32 crate (same version as the repository uses) is the reference encoder for must-accept strings");
    for k in ["c18/roundtrip_checked", "c18/must_accept_checked", "c18/other_variant_rejected", "c18/foreign_prefix_rejected", "c18/case_flip_rejected", "c18/data_substitution_rejected", "c18/prefix_substitution_rejected", "c18/addr_make_checked", "c18/into_addr_checked", "c18/default_codec_cases", "c18/canonical_len/1", "c18/canonical_len/64", "c18/prefix_len/1", "c18/prefix_len/83"] {
        rep.require(k);
    }
    rep
}

pub fn replay(_ctx: &Ctx, w: &Value) -> Report {
    let mut rep = Report::new();
    let case: Case = serde_json::from_value(w["case"].clone()).expect("case");
    if let Some((sig, detail)) = run_case(&case, &mut rep) {
        report_failure(&mut rep, &case, &sig, &detail);
    }
    rep
}
