//! C09 — the bank ledger conserves coins and never overdraws.

use crate::core::*;
use crate::engines::e3_bank::*;
use crate::rng::{derive, Rng};
use serde_json::{json, Value};

const RULE: &str = "cases = ledger histories (mint via sudo, send via execute/send_tokens, burn, contract-initiated \
sends/burns through a relay contract with attached funds) over 5 users + the contract + never-seen / non-address / \
module recipients, 3 denominations (+1 never minted), coin lists of 0-4 coins with duplicate denominations and zeros, \
amounts aimed at the balance boundary (0, 1, bal-1, bal, bal+1, cumulative boundary for repeated denominations). \
After EVERY operation: expected accept/reject from the BTreeMap ledger model, byte-identical raw storage after a \
rejection, raw `bank` namespace scan == model for every account, sum of raw balances == model supply per denomination, \
and Balance / AllBalances / Supply queries == model. distinct_nontrivial = distinct (kind, coin class, accepted) \
sequences among histories with >= 3 accepted and >= 1 rejected operations.";

fn report_failure(rep: &mut Report, case: &Case, sig: &str, detail: &str) {
    rep.violate("C09", sig, detail.to_string(), json!({"engine": "e3_bank", "case": case, "first_discrepancy": detail}));
}

pub fn run(ctx: &Ctx) -> Report {
    let mut rep = parallel(ctx.workers, |w| {
        let mut rep = Report::new();
        if w == 0 {
            for case in templates() {
                rep.bump("c09/template_cases");
                if let Some((sig, detail)) = run_case(&case, &mut rep) {
                    report_failure(&mut rep, &case, &sig, &detail);
                }
            }
        }
        let n = ctx.scale(240, 16 * 2_500) / ctx.workers as u64;
        let mut rng = Rng::new(derive(ctx.seed, "C09", w as u64, 0));
        for i in 0..n {
            if ctx.expired() {
                rep.bump("c09/stopped_by_deadline");
                break;
            }
            let len = rng.range(50, 200) as usize;
            let (case, failed) = run_random(&mut rng, len, &mut rep);
            rep.bump("c09/histories");
            if w == 0 && i == 0 {
                let mut short = case.clone();
                short.ops.truncate(12);
                rep.sample(case_json(&short));
            }
            if let Some((sig, detail)) = failed {
                report_failure(&mut rep, &case, &sig, &detail);
            }
        }
        rep
    });
    rep.rule = RULE.into();
    rep.assume("amounts <= 10^12 per coin and histories <= 200 operations, so no balance or supply approaches 2^128");
    rep.assume("default BankKeeper and MockApi (bech32 prefix cosmwasm); Send.to_address is not validated by the bank (any string is an account)");
    for k in [
        "c09/send/plain/valid", "c09/send/plain/invalid", "c09/send/dups/valid", "c09/send/dups/invalid", "c09/send/zeros/valid",
        "c09/send/empty/invalid", "c09/send/plain/valid/self", "c09/send/plain/invalid/self", "c09/burn/plain/valid", "c09/burn/plain/invalid",
        "c09/mint/plain/valid", "c09/mint/plain/invalid-address", "c09/relay/2msgs/valid", "c09/relay/2msgs/invalid",
        "c09/conservation_checks", "c09/failed_op_state_unchanged_checks", "c09/non_address_accounts_checked_raw_only", "c09/histories_with_a_crowd_of_accounts", "c09/histories_with_over_a_hundred_denominations",
    ] {
        rep.require(k);
    }
    rep
}

pub fn replay(_ctx: &Ctx, w: &Value) -> Report {
    let mut rep = Report::new();
    let case: Case = serde_json::from_value(w["case"].clone()).expect("case");
    if let Some((sig, detail)) = run_case(&case, &mut rep) {
        report_failure(&mut rep, &case, &sig, &detail);
    }
    rep
}
