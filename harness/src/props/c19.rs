//! C19 — the simulator is deterministic and instances do not interfere.

use crate::core::*;
use crate::engines::e7_determinism::*;
use crate::rng::derive;
use serde_json::json;
use std::process::Command;

const RULE: &str = "cases = generated histories (chain histories with contracts, bank, registry, failing transactions, block changes and query batteries; \
staking histories; bank histories). For each history the transcript (every response incl. events and data, Ok/Err, code ids, addresses, checksums, \
query answers, what every contract invocation observed, final raw storage bytes) of a solo run is compared with: (1) a second fresh instance in the same \
process, (2) two instances fed the same program alternately, operation by operation, while a third instance does unrelated work in between, \
(2b) replays on a thread that never hosted an instance (chain, staking and bank programs; the staking and bank programs are generated on a thread of their own and handed to the other processes in a file, so that generation never precedes a compared execution), (2c) a replay on a fresh thread in which a differently configured instance (other bech32 prefix, other block) was used first, (3) separate OS processes started >= 1 s apart (different wall-clock second, address-space layout, hash-map keys; one of them uses a differently configured instance before anything else), (4, thorough) the interpreter Miri with \
isolation (any clock / entropy / environment / file access aborts) under different -Zmiri-seed values. distinct_nontrivial = distinct solo transcript digests \
of histories compared in at least two modes.";

pub fn child(args: &[String]) {
    // --c19-child <seed> <chain_n> <chain_len> <file with staking and bank programs | -> <plain | foreign-first | other-first>
    let seed: u64 = args.first().and_then(|s| s.parse().ok()).unwrap_or(1);
    let chain_n: u64 = args.get(1).and_then(|s| s.parse().ok()).unwrap_or(2);
    let chain_len: usize = args.get(2).and_then(|s| s.parse().ok()).unwrap_or(10);
    let other: OtherCases = match args.get(3).map(|s| s.as_str()) {
        None | Some("-") | Some("0") => OtherCases::default(),
        Some(path) => match std::fs::read(path).ok().and_then(|b| serde_json::from_slice(&b).ok()) {
            Some(c) => c,
            None => {
                eprintln!("cannot read the programs file {}", path);
                std::process::exit(3);
            }
        },
    };
    let order = args.get(4).map(|s| s.as_str()).unwrap_or("plain");
    if order == "foreign-first" {
        // the very first instance of this process is a differently configured one
        run_foreign_instance(seed);
    }
    for l in digest_lines(seed, chain_n, chain_len, &other, order == "other-first") {
        println!("DIGEST {}", l);
    }
}

/// The executions of one program: the first on a fresh thread, the others on the worker thread.
fn compare_runs(rep: &mut Report, runs: &[Result<Vec<String>, String>], kind: &str, j: u64, case: serde_json::Value) {
    let first = match &runs[0] {
        Ok(t) => t,
        Err(p) => {
            rep.violate("C19", "fresh-instance-panics-where-earlier-identical-instances-worked", p.clone(), json!({"engine": "e7", "mode": format!("twin-{}", kind), "history": j, "panic": p}));
            return;
        }
    };
    for (n, r) in runs.iter().enumerate().skip(1) {
        match r {
            Ok(t) if t == first => {}
            Ok(t) => {
                let sig = if n == 1 { "transcript-on-a-used-thread-differs-from-fresh-thread" } else { "twin-instance-transcript-differs" };
                rep.violate("C19", sig, first_diff(first, t), json!({"engine": "e7", "mode": format!("twin-{}", kind), "history": j, "case": case}));
                return;
            }
            Err(p) => {
                rep.violate("C19", "fresh-instance-panics-where-earlier-identical-instances-worked", p.clone(), json!({"engine": "e7", "mode": format!("twin-{}", kind), "history": j, "panic": p}));
                return;
            }
        }
    }
    rep.fingerprints.insert(fp_str(&sha(first)));
}

/// Replays a recorded witness: the program of the witness run solo on a thread that never hosted an instance, and
/// again in the mode that differed (twin, interleaved with a third instance, after other instances, fresh thread;
/// staking / bank programs fresh vs used thread). Process and Miri witnesses name a seed only: they are re-run by the
/// check itself with that VERIF_SEED.
pub fn replay(ctx: &Ctx, w: &serde_json::Value) -> Report {
    let mut rep = Report::new();
    let mode = w["mode"].as_str().unwrap_or("");
    let i = w["history"].as_u64().unwrap_or(0);
    match mode {
        "twin" | "interleaved" | "after-foreign-instance" | "fresh-thread" => {
            let case: crate::engines::e1_chain::Case = match serde_json::from_value(w["case"].clone()) {
                Ok(c) => c,
                Err(e) => {
                    rep.inconclusive.push(format!("the witness carries no program to replay: {}", e));
                    return rep;
                }
            };
            let solo = match on_fresh_thread(|| chain_replay(&case)) {
                Ok(t) => t,
                Err(p) => {
                    rep.violate("C19", "fresh-instance-panics-where-earlier-identical-instances-worked", p.clone(), json!({"engine": "e7", "mode": mode, "history": i, "case": case, "panic": p}));
                    return rep;
                }
            };
            rep.evaluations += 1;
            let wk = i % ctx.workers.max(1) as u64;
            match mode {
                "twin" | "fresh-thread" => {
                    let again = chain_replay(&case);
                    if again != solo {
                        rep.violate("C19", "twin-instance-transcript-differs", first_diff(&solo, &again), json!({"engine": "e7", "mode": mode, "history": i, "case": case}));
                    }
                }
                "interleaved" => {
                    let (ta, tb, _) = chain_interleaved(&case, derive(ctx.seed, "noise", wk, i));
                    if ta != solo || tb != solo {
                        let which = if ta != solo { &ta } else { &tb };
                        rep.violate("C19", "interleaved-instance-transcript-differs", first_diff(&solo, which), json!({"engine": "e7", "mode": mode, "history": i, "case": case}));
                    }
                }
                _ => {
                    let fseed = w["foreign_seed"].as_u64().unwrap_or_else(|| derive(ctx.seed, "foreign", wk, i));
                    match chain_after_foreign(&case, fseed) {
                        Ok(tf) if tf == solo => {}
                        Ok(tf) => rep.violate("C19", "transcript-depends-on-an-earlier-differently-configured-instance", first_diff(&solo, &tf), json!({"engine": "e7", "mode": mode, "history": i, "foreign_seed": fseed, "case": case})),
                        Err(p) if p.starts_with("while replaying") && panic_in_repo(&p) => rep.violate("C19", "instance-panics-after-other-instances-were-used", p.clone(), json!({"engine": "e7", "mode": mode, "history": i, "foreign_seed": fseed, "case": case, "panic": p})),
                        Err(p) => rep.inconclusive.push(format!("after-foreign-instance replay: {}", p)),
                    }
                }
            }
        }
        "twin-staking" => match serde_json::from_value::<crate::engines::e4_staking::Case>(w["case"].clone()) {
            Ok(sc) => {
                let runs = [on_fresh_thread(|| staking_transcript(&sc)), catch(|| staking_transcript(&sc)), catch(|| staking_transcript(&sc))];
                rep.evaluations += 1;
                compare_runs(&mut rep, &runs, "staking", i, json!(sc));
            }
            Err(e) => rep.inconclusive.push(format!("the witness carries no program to replay: {}", e)),
        },
        "lockstep-staking" => match serde_json::from_value::<crate::engines::e4_staking::Case>(w["case"].clone()) {
            Ok(sc) => match (on_fresh_thread(|| staking_transcript(&sc)), catch(|| staking_lockstep(&sc))) {
                (Ok(first), Ok((a, b))) => {
                    rep.evaluations += 1;
                    if a != first || b != first {
                        let which = if a != first { &a } else { &b };
                        rep.violate("C19", "interleaved-instance-transcript-differs", first_diff(&first, which), json!({"engine": "e7", "mode": "lockstep-staking", "history": i, "case": sc}));
                    }
                }
                (x, y) => rep.inconclusive.push(format!("lock-step replay panicked: {:?} {:?}", x.err(), y.err())),
            },
            Err(e) => rep.inconclusive.push(format!("the witness carries no program to replay: {}", e)),
        },
        "lockstep-bank" => match serde_json::from_value::<crate::engines::e3_bank::Case>(w["case"].clone()) {
            Ok(bc) => match (on_fresh_thread(|| bank_transcript(&bc)), catch(|| bank_lockstep(&bc))) {
                (Ok(first), Ok((a, b))) => {
                    rep.evaluations += 1;
                    if a != first || b != first {
                        let which = if a != first { &a } else { &b };
                        rep.violate("C19", "interleaved-instance-transcript-differs", first_diff(&first, which), json!({"engine": "e7", "mode": "lockstep-bank", "history": i, "case": bc}));
                    }
                }
                (x, y) => rep.inconclusive.push(format!("lock-step replay panicked: {:?} {:?}", x.err(), y.err())),
            },
            Err(e) => rep.inconclusive.push(format!("the witness carries no program to replay: {}", e)),
        },
        "twin-bank" => match serde_json::from_value::<crate::engines::e3_bank::Case>(w["case"].clone()) {
            Ok(bc) => {
                let runs = [on_fresh_thread(|| bank_transcript(&bc)), catch(|| bank_transcript(&bc)), catch(|| bank_transcript(&bc))];
                rep.evaluations += 1;
                compare_runs(&mut rep, &runs, "bank", i, json!(bc));
            }
            Err(e) => rep.inconclusive.push(format!("the witness carries no program to replay: {}", e)),
        },
        other => rep.inconclusive.push(format!("witnesses of mode {:?} name a seed only: re-run the check with that VERIF_SEED", other)),
    }
    rep
}

fn parse_digests(out: &str) -> Vec<String> {
    out.lines().filter_map(|l| l.strip_prefix("DIGEST ").map(|s| s.to_string())).collect()
}

pub fn run(ctx: &Ctx) -> Report {
    let thorough = ctx.tier.is_thorough();
    let seed = ctx.seed;
    let n_chain = ctx.scale(240, 6000);
    let n_other = ctx.scale(80, 2000);
    let chain_len = 14usize;
    // (3) separate processes, started in the background >= 1 s apart
    let exe = std::env::current_exe().expect("current exe");
    let proc_n = ctx.scale(60, 600);
    let proc_other = ctx.scale(20, 200);
    // the staking and bank programs are generated here and handed to the other processes, whose very first
    // instances are then the compared ones (generation drives instances of its own)
    let proc_cases = other_cases(seed, proc_other);
    let cases_file = exe.parent().map(|p| p.to_path_buf()).unwrap_or_else(std::env::temp_dir).join(format!("c19-programs-{}-{}.json", std::process::id(), seed));
    if let Err(e) = std::fs::write(&cases_file, serde_json::to_vec(&proc_cases).unwrap_or_default()) {
        let mut rep = Report::new();
        rep.inconclusive.push(format!("cannot write {}: {}", cases_file.display(), e));
        return rep;
    }
    let mut children = vec![];
    for i in 0..3 {
        let c = Command::new(&exe)
            .args(["--c19-child", &seed.to_string(), &proc_n.to_string(), &chain_len.to_string()])
            .arg(&cases_file)
            .arg(["plain", "foreign-first", "other-first"][i])
            .env_remove("RUST_BACKTRACE")
            .stdout(std::process::Stdio::piped())
            .stderr(std::process::Stdio::piped())
            .spawn();
        children.push(c);
        if i < 2 {
            std::thread::sleep(std::time::Duration::from_millis(1100));
        }
    }
    // (4) Miri, thorough only: started now, collected at the end
    let mut miri = vec![];
    let miri_seeds: u64 = if thorough { std::env::var("VERIF_MIRI_SEEDS").ok().and_then(|s| s.parse().ok()).unwrap_or(12) } else { 0 };
    let manifest = ctx.verif_dir.join("harness/Cargo.toml");
    let manifest = std::env::var("VERIF_HARNESS_MANIFEST").map(std::path::PathBuf::from).unwrap_or(manifest);
    let miri_target = std::env::var("VERIF_TARGET_DIR").map(|t| format!("{}/miri", t)).unwrap_or_else(|_| format!("{}/target/miri", ctx.verif_dir.display()));
    for s in 0..miri_seeds {
        let c = Command::new("cargo")
            .args(["+nightly", "miri", "run", "--offline", "--quiet", "--manifest-path"])
            .arg(&manifest)
            .args(["--target-dir", &miri_target, "--bin", "vcheck", "--", "--c19-child", &(seed + s / 4).to_string(), "1", "3", "-"])
            .env("MIRIFLAGS", format!("-Zmiri-seed={}", s))
            .env("CARGO_NET_OFFLINE", "true")
            .env_remove("RUST_BACKTRACE")
            .stdout(std::process::Stdio::piped())
            .stderr(std::process::Stdio::piped())
            .spawn();
        miri.push((s, seed + s / 4, c));
        if s == 0 {
            // let the first one build the interpreter's view of the crate before the others start
            if let Some((_, _, Ok(ch))) = miri.last_mut() {
                let _ = ch.wait();
            }
        }
    }

    // (1) + (2) in this process, in parallel over histories
    let mut rep = parallel(ctx.workers, |w| {
        let mut rep = Report::new();
        let mut i = w as u64;
        while i < n_chain {
            if ctx.expired() {
                rep.bump("c19/stopped_by_deadline");
                break;
            }
            // building and driving a fresh instance never panics outside of a step (steps catch what the code under
            // test throws by design): a panic from the repository's code here is one more way in which an execution
            // differs from the others that did not panic
            macro_rules! fresh {
                ($what:expr, $e:expr) => {
                    match catch(|| $e) {
                        Ok(v) => v,
                        Err(p) => {
                            if panic_in_repo(&p) {
                                rep.violate("C19", "fresh-instance-panics-where-earlier-identical-instances-worked", p.clone(), json!({"engine": "e7", "mode": $what, "history": i, "seed": seed, "panic": p}));
                            } else {
                                rep.inconclusive.push(format!("C19 {} of history {}: {}", $what, i, p));
                            }
                            i += ctx.workers as u64;
                            continue;
                        }
                    }
                };
            }
            let (case, solo) = fresh!("generation", chain_history(seed, i, chain_len));
            let d = sha(&solo);
            let twin = fresh!("twin-run", chain_replay(&case));
            rep.evaluations += 1;
            rep.bump("c19/chain/twin_compared");
            rep.add("c19/chain/transcript_records_compared", solo.len() as u64);
            if twin != solo {
                rep.violate("C19", "twin-instance-transcript-differs", first_diff(&solo, &twin), json!({"engine": "e7", "mode": "twin", "history": i, "case": case}));
            }
            let (ta, tb, noise) = fresh!("interleaved-run", chain_interleaved(&case, derive(seed, "noise", w as u64, i)));
            rep.bump("c19/chain/interleaved_compared");
            rep.add("c19/chain/unrelated_steps_interleaved", noise);
            rep.note_set("c19/interleavings", format!("{}:{}", i, noise));
            if ta != solo || tb != solo {
                let which = if ta != solo { &ta } else { &tb };
                rep.violate("C19", "interleaved-instance-transcript-differs", first_diff(&solo, which), json!({"engine": "e7", "mode": "interleaved", "history": i, "case": case}));
            }
            if i % 4 == 0 {
                let fseed = derive(seed, "foreign", w as u64, i);
                rep.bump("c19/chain/after_foreign_instance_compared");
                match chain_after_foreign(&case, fseed) {
                    Ok(tf) if tf == solo => {}
                    Ok(tf) => rep.violate("C19", "transcript-depends-on-an-earlier-differently-configured-instance", first_diff(&solo, &tf), json!({"engine": "e7", "mode": "after-foreign-instance", "history": i, "foreign_seed": fseed, "case": case})),
                    Err(p) if p.starts_with("while replaying") && panic_in_repo(&p) => rep.violate("C19", "instance-panics-after-other-instances-were-used", p.clone(), json!({"engine": "e7", "mode": "after-foreign-instance", "history": i, "foreign_seed": fseed, "case": case, "panic": p})),
                    Err(p) => rep.inconclusive.push(format!("C19 after-foreign-instance run of history {} (foreign seed {}): {}", i, fseed, p)),
                }
            }
            if i % 4 == 2 {
                // a thread that never hosted an instance
                rep.bump("c19/chain/fresh_thread_compared");
                match on_fresh_thread(|| chain_replay(&case)) {
                    Ok(tf) if tf == solo => {}
                    Ok(tf) => rep.violate("C19", "transcript-on-a-used-thread-differs-from-fresh-thread", first_diff(&tf, &solo), json!({"engine": "e7", "mode": "fresh-thread", "history": i, "case": case})),
                    Err(p) => rep.violate("C19", "fresh-instance-panics-where-earlier-identical-instances-worked", p.clone(), json!({"engine": "e7", "mode": "fresh-thread", "history": i, "panic": p})),
                }
            }
            rep.fingerprints.insert(fp_str(&d));
            if w == 0 && i == 0 {
                rep.sample(json!({"history": "chain 0", "digest": d, "records": solo.len(), "first_records": solo.iter().take(3).map(|s| s.chars().take(200).collect::<String>()).collect::<Vec<_>>()}));
            }
            i += ctx.workers as u64;
        }
        let mut j = w as u64;
        while j < n_other {
            // the program is generated on a thread of its own; it is then run on a thread that never hosted an
            // instance and twice on this worker thread, which has hosted many (with later block times, other
            // parameters, other denominations). A panic in one of them (a fresh instance that cannot be set up or
            // driven any more) is a difference between executions, not a harness problem
            match on_fresh_thread(|| (staking_history(seed, j), bank_history(seed, j))) {
                Ok((sc, bc)) => {
                    let runs = [on_fresh_thread(|| staking_transcript(&sc)), catch(|| staking_transcript(&sc)), catch(|| staking_transcript(&sc))];
                    rep.evaluations += 1;
                    rep.bump("c19/staking/twin_compared");
                    rep.bump("c19/staking/fresh_thread_compared");
                    compare_runs(&mut rep, &runs, "staking", j, json!(sc));
                    // two instances in lock-step on this thread (same validators, block times and delegators)
                    if let Ok(first) = &runs[0] {
                        match catch(|| staking_lockstep(&sc)) {
                            Ok((a, b)) => {
                                rep.bump("c19/staking/lockstep_compared");
                                if &a != first || &b != first {
                                    let which = if &a != first { &a } else { &b };
                                    rep.violate("C19", "interleaved-instance-transcript-differs", first_diff(first, which), json!({"engine": "e7", "mode": "lockstep-staking", "history": j, "case": sc}));
                                }
                            }
                            Err(p) => rep.violate("C19", "fresh-instance-panics-where-earlier-identical-instances-worked", p.clone(), json!({"engine": "e7", "mode": "lockstep-staking", "history": j, "panic": p})),
                        }
                    }
                    let runs = [on_fresh_thread(|| bank_transcript(&bc)), catch(|| bank_transcript(&bc)), catch(|| bank_transcript(&bc))];
                    rep.evaluations += 1;
                    rep.bump("c19/bank/twin_compared");
                    rep.bump("c19/bank/fresh_thread_compared");
                    compare_runs(&mut rep, &runs, "bank", j, json!(bc));
                    if let Ok(first) = &runs[0] {
                        match catch(|| bank_lockstep(&bc)) {
                            Ok((a, b)) => {
                                rep.bump("c19/bank/lockstep_compared");
                                if &a != first || &b != first {
                                    let which = if &a != first { &a } else { &b };
                                    rep.violate("C19", "interleaved-instance-transcript-differs", first_diff(first, which), json!({"engine": "e7", "mode": "lockstep-bank", "history": j, "case": bc}));
                                }
                            }
                            Err(p) => rep.violate("C19", "fresh-instance-panics-where-earlier-identical-instances-worked", p.clone(), json!({"engine": "e7", "mode": "lockstep-bank", "history": j, "panic": p})),
                        }
                    }
                }
                Err(p) => rep.violate("C19", "fresh-instance-panics-where-earlier-identical-instances-worked", p.clone(), json!({"engine": "e7", "mode": "generation", "history": j, "panic": p})),
            }
            j += ctx.workers as u64;
        }
        rep
    });

    // collect the separate processes
    let mine = digest_lines(seed, proc_n, chain_len, &proc_cases, false);
    let _ = std::fs::remove_file(&cases_file);
    for (k, c) in children.into_iter().enumerate() {
        match c.and_then(|c| c.wait_with_output()) {
            Ok(out) if out.status.success() => {
                let theirs = parse_digests(&String::from_utf8_lossy(&out.stdout));
                rep.bump("c19/processes_compared");
                rep.add("c19/process_history_digests_compared", theirs.len() as u64);
                if theirs != mine {
                    let d = mine.iter().zip(theirs.iter()).find(|(a, b)| a != b).map(|(a, b)| format!("{} vs {}", a, b)).unwrap_or_else(|| format!("{} vs {} digests", mine.len(), theirs.len()));
                    rep.violate("C19", "separate-process-transcript-differs", format!("process #{}: {}", k, d), json!({"engine": "e7", "mode": "process", "seed": seed, "first": d}));
                }
            }
            Ok(out) => rep.inconclusive.push(format!("child process failed: {} {}", out.status, String::from_utf8_lossy(&out.stderr).chars().take(300).collect::<String>())),
            Err(e) => rep.inconclusive.push(format!("could not run child process: {}", e)),
        }
    }
    // collect Miri runs
    for (s, hseed, c) in miri {
        match c {
            Ok(ch) => match ch.wait_with_output() {
                Ok(out) => {
                    let stdout = String::from_utf8_lossy(&out.stdout).to_string();
                    let stderr = String::from_utf8_lossy(&out.stderr).to_string();
                    let theirs = parse_digests(&stdout);
                    if out.status.success() && !theirs.is_empty() {
                        let mine = digest_lines(hseed, 1, 3, &OtherCases::default(), false);
                        rep.bump("c19/miri_seeds_compared");
                        if theirs != mine {
                            rep.violate("C19", "transcript-under-miri-differs", format!("-Zmiri-seed={}: {:?} vs native {:?}", s, theirs, mine), json!({"engine": "e7", "mode": "miri", "miri_seed": s, "seed": hseed}));
                        }
                    } else if stderr.contains("unsupported operation") || stderr.contains("isolation") {
                        // the isolation monitor fired: the simulator touched the clock / entropy / environment / file system
                        let line = stderr.lines().find(|l| l.contains("unsupported operation") || l.contains("isolation")).unwrap_or("").to_string();
                        rep.violate("C19", "isolation-violated-under-miri", format!("-Zmiri-seed={}: {}", s, line), json!({"engine": "e7", "mode": "miri", "miri_seed": s, "stderr": stderr.chars().take(2000).collect::<String>()}));
                    } else {
                        rep.bump("c19/miri_runs_inconclusive");
                        rep.extra.insert(format!("miri_inconclusive_{}", s), json!(stderr.chars().take(400).collect::<String>()));
                    }
                }
                Err(e) => rep.extra.insert(format!("miri_error_{}", s), json!(e.to_string())).map(|_| ()).unwrap_or(()),
            },
            Err(e) => {
                rep.bump("c19/miri_runs_inconclusive");
                rep.extra.insert(format!("miri_spawn_error_{}", s), json!(e.to_string()));
            }
        }
    }
    if rep.samples.is_empty() {
        rep.sample(json!({"note": "no chain history 0 in this run", "transcript_records_compared": rep.count("c19/chain/transcript_records_compared")}));
    }
    rep.rule = RULE.into();
    rep.assume("transcripts exclude error texts (Ok/Err only), as the property speaks of errors-or-not");
    rep.assume("Miri runs (thorough tier) use a short chain history (setup + 3 transactions) because the interpreter is ~4 orders of magnitude slower");
    rep.add("c19/contract_panics_caught_on_other_instances", crate::engines::e7_determinism::PANICS_CAUGHT_ON_OTHER_INSTANCES.load(std::sync::atomic::Ordering::Relaxed));
    for k in ["c19/chain/twin_compared", "c19/chain/interleaved_compared", "c19/staking/twin_compared", "c19/bank/twin_compared", "c19/staking/fresh_thread_compared", "c19/chain/fresh_thread_compared", "c19/processes_compared", "c19/chain/unrelated_steps_interleaved", "c19/chain/after_foreign_instance_compared", "c19/contract_panics_caught_on_other_instances", "c19/staking/lockstep_compared", "c19/bank/lockstep_compared"] {
        rep.require(k);
    }
    if thorough && rep.count("c19/miri_seeds_compared") == 0 && std::env::var("VERIF_MIRI_SEEDS").map(|s| s != "0").unwrap_or(true) {
        rep.extra.insert("miri_note".into(), json!("no Miri run produced a transcript in this run (see miri_inconclusive_* entries); modes 1-3 decide"));
    }
    rep
}
