//! Shared run infrastructure: context, report (evidence + violations), known findings, panics.

use serde_json::{json, Map, Value};
use std::cell::RefCell;
use std::collections::{BTreeMap, BTreeSet, HashSet};
use std::path::PathBuf;
use std::time::{Duration, Instant};

#[derive(Clone, Copy, Debug, PartialEq, Eq)]
pub enum Tier {
    Quick,
    Thorough,
}

impl Tier {
    pub fn name(self) -> &'static str {
        match self {
            Tier::Quick => "quick",
            Tier::Thorough => "thorough",
        }
    }
    pub fn is_thorough(self) -> bool {
        self == Tier::Thorough
    }
}

#[derive(Clone, Debug)]
pub struct Ctx {
    pub prop: String,
    pub tier: Tier,
    pub seed: u64,
    pub start: Instant,
    /// Soft deadline: exploration stops early when reached; never produces a verdict.
    pub deadline: Instant,
    pub workers: usize,
    pub verif_dir: PathBuf,
}

impl Ctx {
    pub fn expired(&self) -> bool {
        Instant::now() >= self.deadline
    }
    /// True once `percent` of the time up to the soft deadline is used: the main pass of a check stops there so that
    /// the passes after it still run on a loaded machine.
    pub fn expired_at(&self, percent: u32) -> bool {
        Instant::now() >= self.start + (self.deadline - self.start) * percent / 100
    }
    pub fn scale(&self, quick: u64, thorough: u64) -> u64 {
        let base = match self.tier {
            Tier::Quick => quick,
            Tier::Thorough => thorough,
        };
        // VERIF_SCALE (percent) lets mutation runs shrink budgets without touching code paths.
        match std::env::var("VERIF_SCALE").ok().and_then(|s| s.parse::<u64>().ok()) {
            Some(p) if p > 0 => std::cmp::max(1, base * p / 100),
            _ => base,
        }
    }
}

#[derive(Clone, Debug)]
pub struct Violation {
    /// Property this discrepancy refutes.
    pub prop: String,
    /// Stable, exact signature (failing site + input class); matched against KNOWN_FINDINGS.txt.
    pub signature: String,
    /// One-line human readable description.
    pub summary: String,
    /// Replayable witness (program + expected/observed).
    pub witness: Value,
}

#[derive(Default, Debug)]
pub struct Report {
    pub evaluations: u64,
    pub fingerprints: HashSet<u64>,
    pub rule: String,
    pub samples: Vec<Value>,
    pub counters: BTreeMap<String, u64>,
    pub sets: BTreeMap<String, BTreeSet<String>>,
    pub violations: Vec<Violation>,
    pub assumptions: Vec<String>,
    pub exhaustive: Option<bool>,
    pub inconclusive: Vec<String>,
    pub extra: Map<String, Value>,
    pub level: Option<String>,
}

impl Report {
    pub fn new() -> Self {
        Default::default()
    }
    pub fn bump(&mut self, key: &str) {
        *self.counters.entry(key.to_string()).or_insert(0) += 1;
    }
    pub fn add(&mut self, key: &str, n: u64) {
        *self.counters.entry(key.to_string()).or_insert(0) += n;
    }
    pub fn count(&self, key: &str) -> u64 {
        self.counters.get(key).copied().unwrap_or(0)
    }
    pub fn note_set(&mut self, key: &str, item: impl Into<String>) {
        let s = self.sets.entry(key.to_string()).or_default();
        if s.len() < 4096 {
            s.insert(item.into());
        }
    }
    pub fn sample(&mut self, v: Value) {
        if self.samples.len() < 6 {
            self.samples.push(v);
        }
    }
    pub fn violate(&mut self, prop: &str, signature: impl Into<String>, summary: impl Into<String>, witness: Value) {
        // keep the first few per signature; count the rest
        let signature = signature.into();
        let n = self.violations.iter().filter(|v| v.signature == signature && v.prop == prop).count();
        self.bump(&format!("violations_raw/{}/{}", prop, signature));
        if n < 3 && self.violations.len() < 200 {
            self.violations.push(Violation {
                prop: prop.to_string(),
                signature,
                summary: summary.into(),
                witness,
            });
        }
    }
    pub fn merge(&mut self, other: Report) {
        self.evaluations += other.evaluations;
        self.fingerprints.extend(other.fingerprints);
        if self.rule.is_empty() {
            self.rule = other.rule;
        }
        for s in other.samples {
            self.sample(s);
        }
        for (k, v) in other.counters {
            *self.counters.entry(k).or_insert(0) += v;
        }
        for (k, v) in other.sets {
            let e = self.sets.entry(k).or_default();
            for x in v {
                if e.len() < 4096 {
                    e.insert(x);
                }
            }
        }
        for v in other.violations {
            let n = self
                .violations
                .iter()
                .filter(|w| w.signature == v.signature && w.prop == v.prop)
                .count();
            if n < 3 && self.violations.len() < 200 {
                self.violations.push(v);
            }
        }
        for a in other.assumptions {
            if !self.assumptions.contains(&a) {
                self.assumptions.push(a);
            }
        }
        self.exhaustive = match (self.exhaustive, other.exhaustive) {
            (Some(a), Some(b)) => Some(a && b),
            (a, None) => a,
            (None, b) => b,
        };
        self.inconclusive.extend(other.inconclusive);
        for (k, v) in other.extra {
            self.extra.entry(k).or_insert(v);
        }
        if self.level.is_none() {
            self.level = other.level;
        }
    }
    pub fn assume(&mut self, s: &str) {
        if !self.assumptions.iter().any(|a| a == s) {
            self.assumptions.push(s.to_string());
        }
    }
    /// Declares that a coverage bucket must be non-empty for the run to be conclusive.
    pub fn require(&mut self, key: &str) {
        if self.count(key) == 0 {
            self.inconclusive.push(format!("required coverage bucket '{}' is empty", key));
        }
    }
}

pub fn fp(bytes: &[u8]) -> u64 {
    // FNV-1a 64
    let mut h: u64 = 0xcbf2_9ce4_8422_2325;
    for b in bytes {
        h ^= *b as u64;
        h = h.wrapping_mul(0x0000_0100_0000_01B3);
    }
    h
}

pub fn fp_str(s: &str) -> u64 {
    fp(s.as_bytes())
}

pub fn hex(b: &[u8]) -> String {
    let mut s = String::with_capacity(b.len() * 2);
    for x in b {
        s.push_str(&format!("{:02x}", x));
    }
    s
}

pub fn unhex(s: &str) -> Vec<u8> {
    (0..s.len() / 2)
        .map(|i| u8::from_str_radix(&s[2 * i..2 * i + 2], 16).unwrap_or(0))
        .collect()
}

// ---------------------------------------------------------------------------------------------
// Known findings
// ---------------------------------------------------------------------------------------------

#[derive(Debug, Clone)]
pub struct Known {
    pub prop: String,
    pub signature: String,
    pub text: String,
}

/// Parses KNOWN_FINDINGS.txt: `known: property=<id> signature=<sig> <what fails>`; `fixed:` lines
/// suppress nothing and are ignored here. The file is never written at run time.
pub fn load_known(verif_dir: &std::path::Path) -> Vec<Known> {
    let p = verif_dir.join("KNOWN_FINDINGS.txt");
    let mut out = vec![];
    if let Ok(s) = std::fs::read_to_string(p) {
        for line in s.lines() {
            let line = line.trim();
            if let Some(rest) = line.strip_prefix("known:") {
                let mut prop = None;
                let mut sig = None;
                let mut text = vec![];
                for tok in rest.split_whitespace() {
                    if prop.is_none() && tok.starts_with("property=") {
                        prop = Some(tok["property=".len()..].to_string());
                    } else if sig.is_none() && tok.starts_with("signature=") {
                        sig = Some(tok["signature=".len()..].to_string());
                    } else {
                        text.push(tok);
                    }
                }
                if let (Some(prop), Some(signature)) = (prop, sig) {
                    out.push(Known { prop, signature, text: text.join(" ") });
                }
            }
        }
    }
    out
}

// ---------------------------------------------------------------------------------------------
// Panic capture
// ---------------------------------------------------------------------------------------------

thread_local! {
    static LAST_PANIC: RefCell<Option<String>> = const { RefCell::new(None) };
}

pub fn install_quiet_panic_hook() {
    std::panic::set_hook(Box::new(|info| {
        let msg = if let Some(s) = info.payload().downcast_ref::<&str>() {
            s.to_string()
        } else if let Some(s) = info.payload().downcast_ref::<String>() {
            s.clone()
        } else {
            "<non-string panic>".to_string()
        };
        let loc = info
            .location()
            .map(|l| format!("{}:{}", l.file(), l.line()))
            .unwrap_or_default();
        LAST_PANIC.with(|p| *p.borrow_mut() = Some(format!("{} @ {}", msg, loc)));
    }));
}

/// Runs `f`, converting a panic into `Err(message @ location)`.
pub fn catch<T>(f: impl FnOnce() -> T) -> Result<T, String> {
    LAST_PANIC.with(|p| *p.borrow_mut() = None);
    match std::panic::catch_unwind(std::panic::AssertUnwindSafe(f)) {
        Ok(v) => Ok(v),
        Err(_) => Err(LAST_PANIC
            .with(|p| p.borrow_mut().take())
            .unwrap_or_else(|| "<panic>".to_string())),
    }
}

/// True if the panic location is inside the code under test (not the harness).
pub fn panic_in_repo(msg: &str) -> bool {
    // harness sources are compiled with paths relative to the harness manifest ("src/...");
    // /repo and registry dependencies appear with absolute paths.
    match msg.rsplit_once(" @ ") {
        Some((_, loc)) => !loc.starts_with("src/") && !loc.contains("harness/src"),
        None => false,
    }
}

// ---------------------------------------------------------------------------------------------
// Parallel driver
// ---------------------------------------------------------------------------------------------

/// Runs `f(worker_index)` on `n` threads and merges the reports.
pub fn parallel<F>(n: usize, f: F) -> Report
where
    F: Fn(usize) -> Report + Sync,
{
    if n <= 1 {
        return f(0);
    }
    let mut merged = Report::new();
    let results: Vec<Result<Report, String>> = std::thread::scope(|s| {
        let handles: Vec<_> = (0..n)
            .map(|i| {
                let f = &f;
                std::thread::Builder::new()
                    .stack_size(256 << 20)
                    .spawn_scoped(s, move || catch(|| f(i)))
                    .expect("spawn")
            })
            .collect();
        handles
            .into_iter()
            .map(|h| h.join().map_err(|_| "worker panicked".to_string()).and_then(|r| r))
            .collect()
    });
    for r in results {
        match r {
            Ok(rep) => merged.merge(rep),
            Err(e) => merged.inconclusive.push(format!("harness worker failed: {}", e)),
        }
    }
    merged
}

pub fn evidence_json(ctx: &Ctx, rep: &Report, violations: usize, known_hits: &[String]) -> Value {
    let mut cov = Map::new();
    cov.insert("evaluations".into(), json!(rep.evaluations));
    cov.insert("distinct_nontrivial".into(), json!(rep.fingerprints.len()));
    cov.insert("rule".into(), json!(rep.rule));
    cov.insert("samples".into(), Value::Array(rep.samples.clone()));
    if let Some(e) = rep.exhaustive {
        cov.insert("exhaustive".into(), json!(e));
    }
    // counters as a nested object (violations_raw kept separately)
    let mut counters = Map::new();
    for (k, v) in &rep.counters {
        if !k.starts_with("violations_raw/") {
            counters.insert(k.clone(), json!(v));
        }
    }
    cov.insert("observed".into(), Value::Object(counters));
    let mut sets = Map::new();
    for (k, v) in &rep.sets {
        let items: Vec<&String> = v.iter().take(64).collect();
        sets.insert(k.clone(), json!({"distinct": v.len(), "first": items}));
    }
    if !sets.is_empty() {
        cov.insert("observed_sets".into(), Value::Object(sets));
    }
    for (k, v) in &rep.extra {
        cov.insert(k.clone(), v.clone());
    }
    if !known_hits.is_empty() {
        cov.insert("known_findings_hit".into(), json!(known_hits));
    }
    if !rep.inconclusive.is_empty() {
        cov.insert("inconclusive".into(), json!(rep.inconclusive));
    }
    json!({
        "property_id": ctx.prop,
        "tier": ctx.tier.name(),
        "seed": ctx.seed,
        "level": rep.level.clone().unwrap_or_else(|| "exploration".to_string()),
        "coverage": Value::Object(cov),
        "assumptions": rep.assumptions,
        "wall_s": ctx.start.elapsed().as_secs_f64(),
        "violations": violations,
    })
}

pub fn soft_deadline(tier: Tier) -> Duration {
    let secs = std::env::var("VERIF_DEADLINE_S")
        .ok()
        .and_then(|s| s.parse::<u64>().ok())
        .unwrap_or(match tier {
            Tier::Quick => 120,
            Tier::Thorough => 540,
        });
    Duration::from_secs(secs)
}

/// Splits violations (own property / others / known findings), writes replays and evidence, prints the verdict.
pub fn conclude(ctx: &Ctx, mut rep: Report, replay: Option<&std::path::Path>) -> i32 {
    // Split violations: own property / other properties (NOTE only) ; match known findings.
    let prop = ctx.prop.clone();
    let seed = ctx.seed;
    let tier = ctx.tier;
    let start = ctx.start;
    let verif_dir = ctx.verif_dir.clone();
    let known = load_known(&verif_dir);
    let mut own: Vec<Violation> = vec![];
    let mut known_hits: Vec<String> = vec![];
    let all = std::mem::take(&mut rep.violations);
    for v in all {
        if v.prop != prop {
            println!("NOTE: discrepancy tagged {} seen while checking {} ({}): {}", v.prop, prop, v.signature, v.summary);
            continue;
        }
        if let Some(k) = known.iter().find(|k| k.prop == v.prop && k.signature == v.signature) {
            let line = format!("KNOWN-FINDING: property={} {} [{}]", v.prop, k.text, k.signature);
            if !known_hits.contains(&line) {
                known_hits.push(line);
            }
        } else {
            own.push(v);
        }
    }
    for l in &known_hits {
        println!("{}", l);
    }

    let mut exit = 0;
    if !own.is_empty() && replay.is_none() {
        let dir = verif_dir.join("replays");
        let _ = std::fs::create_dir_all(&dir);
        for (i, v) in own.iter().enumerate() {
            let path = dir.join(format!("{}-{}-{}.json", prop, seed, i));
            let doc = json!({
                "property": v.prop,
                "signature": v.signature,
                "summary": v.summary,
                "seed": seed,
                "tier": tier.name(),
                "witness": v.witness,
            });
            let _ = std::fs::write(&path, serde_json::to_string_pretty(&doc).unwrap());
            println!("VIOLATION property={} replay={}", prop, path.display());
            println!("  signature: {}", v.signature);
            println!("  {}", v.summary);
        }
        exit = 1;
    } else if !own.is_empty() {
        for v in &own {
            println!("VIOLATION property={} replay={}", prop, replay.unwrap().display());
            println!("  signature: {}", v.signature);
            println!("  {}", v.summary);
        }
        exit = 1;
    }

    if replay.is_none() {
        let ev = evidence_json(ctx, &rep, own.len(), &known_hits);
        let dir = verif_dir.join("evidence");
        let _ = std::fs::create_dir_all(&dir);
        let path = dir.join(format!("{}.json", prop));
        std::fs::write(&path, serde_json::to_string_pretty(&ev).unwrap()).expect("write evidence");
    }

    if exit == 0 && !rep.inconclusive.is_empty() {
        for m in &rep.inconclusive {
            println!("INCONCLUSIVE property={} {}", prop, m);
        }
        exit = 2;
    }
    println!(
        "{} {} {} seed={} evaluations={} distinct_nontrivial={} wall={:.1}s",
        match exit {
            0 => "HELD",
            1 => "VIOLATED",
            _ => "INCONCLUSIVE",
        },
        prop,
        tier.name(),
        seed,
        rep.evaluations,
        rep.fingerprints.len(),
        start.elapsed().as_secs_f64()
    );
    let mut keys: Vec<_> = rep.counters.iter().filter(|(k, _)| !k.starts_with("violations_raw/")).collect();
    keys.sort();
    for (k, v) in keys.iter().take(400) {
        println!("  observed {:<60} {}", k, v);
    }
    exit
}
