//! Scripted ("puppet") contracts and the out-of-band invocation trace (DESIGN.md section 4, E1).
//!
//! Every entry point interprets a `Script` carried in the message; the reply behaviour travels in
//! the sub-message payload. Every invocation appends a `TraceEv` to a thread-local log that lives
//! outside chain state (so it is NOT rolled back) — recorded at the contract boundary, i.e.
//! exactly what a contract author can observe.

use cosmwasm_std::{
    to_json_binary, AllBalanceResponse, BalanceResponse, BankMsg, BankQuery, Binary, CodeInfoResponse, Coin, ContractInfoResponse, CosmosMsg,
    CustomMsg, CustomQuery, Deps, DepsMut, Empty, Env, Event, MessageInfo, Order, QueryRequest, Reply, ReplyOn, Response, StdError, StdResult,
    Storage, SubMsg, SubMsgResult, SupplyResponse, WasmMsg, WasmQuery,
};
use cw_multi_test::error::AnyResult;
use cw_multi_test::{Contract, ContractWrapper};
use schemars::JsonSchema;
use serde::{Deserialize, Serialize};
use std::cell::RefCell;

// --- chain-specific custom message / query ----------------------------------------------------

#[derive(Serialize, Deserialize, Clone, Debug, PartialEq, JsonSchema)]
pub struct PMsg {
    pub tag: u32,
    pub fail: bool,
}
impl CustomMsg for PMsg {}

#[derive(Serialize, Deserialize, Clone, Debug, PartialEq, JsonSchema)]
pub struct PQuery {
    pub n: u64,
}
impl CustomQuery for PQuery {}

// --- scripts -------------------------------------------------------------------------------------

#[derive(Serialize, Deserialize, Clone, Copy, Debug, PartialEq, Eq, Hash)]
pub enum RMode {
    Always,
    Error,
    Success,
    Never,
}

impl RMode {
    pub fn to_std(self) -> ReplyOn {
        match self {
            RMode::Always => ReplyOn::Always,
            RMode::Error => ReplyOn::Error,
            RMode::Success => ReplyOn::Success,
            RMode::Never => ReplyOn::Never,
        }
    }
    pub fn on_ok(self) -> bool {
        matches!(self, RMode::Always | RMode::Success)
    }
    pub fn on_err(self) -> bool {
        matches!(self, RMode::Always | RMode::Error)
    }
}

#[derive(Serialize, Deserialize, Clone, Debug, PartialEq)]
pub enum Probe {
    Balance { addr: String, denom: String },
    AllBalances { addr: String },
    Supply { denom: String },
    WasmRaw { addr: String, key: Binary },
    WasmSmart { addr: String },
    ContractInfo { addr: String },
    CodeInfo { code_id: u64 },
    Custom { n: u64 },
    /// iteration over the contract's own storage
    /// `what`: 0 = Storage::range, 1 = Storage::range_keys, 2 = Storage::range_values
    OwnRange { start: Option<Binary>, end: Option<Binary>, desc: bool, #[serde(default)] what: u8 },
    OwnGet { key: Binary },
    /// an arbitrary serialized QueryRequest (used by the routing engine)
    RawQuery { request: Binary },
}

#[derive(Serialize, Deserialize, Clone, Debug, PartialEq)]
pub struct Ev {
    pub ty: String,
    pub attrs: Vec<(String, String)>,
}

#[derive(Serialize, Deserialize, Clone, Debug, PartialEq, Default)]
pub struct Script {
    pub tag: u32,
    #[serde(default, skip_serializing_if = "Vec::is_empty")]
    pub probes: Vec<Probe>,
    #[serde(default, skip_serializing_if = "Vec::is_empty")]
    pub writes: Vec<(Binary, Option<Binary>)>,
    #[serde(default, skip_serializing_if = "Vec::is_empty")]
    pub attrs: Vec<(String, String)>,
    #[serde(default, skip_serializing_if = "Vec::is_empty")]
    pub events: Vec<Ev>,
    #[serde(default, skip_serializing_if = "Option::is_none")]
    pub data: Option<Binary>,
    #[serde(default, skip_serializing_if = "Vec::is_empty")]
    pub msgs: Vec<Sub>,
    /// return a contract error (after performing the writes)
    #[serde(default, skip_serializing_if = "std::ops::Not::not")]
    pub fail: bool,
}

#[derive(Serialize, Deserialize, Clone, Debug, PartialEq)]
pub enum Payload {
    Plan(Box<ReplyPlan>),
    Raw(Binary),
}

#[derive(Serialize, Deserialize, Clone, Debug, PartialEq)]
pub struct Sub {
    pub id: u64,
    pub mode: RMode,
    pub payload: Payload,
    pub msg: Msg,
}

#[derive(Serialize, Deserialize, Clone, Debug, PartialEq)]
pub struct ReplyPlan {
    pub nonce: u32,
    pub on_ok: Script,
    pub on_err: Script,
}

#[derive(Serialize, Deserialize, Clone, Debug, PartialEq)]
pub enum Msg {
    Exec { addr: String, script: Box<Script>, funds: Vec<Coin> },
    Inst { code_id: u64, script: Box<Script>, funds: Vec<Coin>, label: String, admin: Option<String>, salt: Option<Binary> },
    Migrate { addr: String, code_id: u64, script: Box<Script> },
    UpdateAdmin { addr: String, admin: String },
    ClearAdmin { addr: String },
    BankSend { to: String, coins: Vec<Coin> },
    BankBurn { coins: Vec<Coin> },
    Custom { tag: u32, fail: bool },
    /// outside the chain model (staking, distribution, ...): only model-free invariants are judged
    Opaque(CosmosMsg<PMsg>),
    /// a wasm message (kind 0 execute, 1 instantiate, 2 migrate) whose payload is not a script — empty, not JSON, or
    /// JSON of another shape: the contract cannot read it, so the call fails like any contract error
    Garbled { kind: u8, addr: String, code_id: u64, bytes: Binary },
}

/// How a custom message is expressed in the contract's own message type.
pub trait Flavor: CustomMsg {
    fn custom(tag: u32, fail: bool) -> CosmosMsg<Self>;
    fn opaque(m: &CosmosMsg<PMsg>) -> CosmosMsg<Self>;
}

impl Flavor for PMsg {
    fn custom(tag: u32, fail: bool) -> CosmosMsg<PMsg> {
        CosmosMsg::Custom(PMsg { tag, fail })
    }
    fn opaque(m: &CosmosMsg<PMsg>) -> CosmosMsg<PMsg> {
        m.clone()
    }
}

impl Flavor for Empty {
    /// A contract written against `Empty` cannot express the chain's custom message: it sends a
    /// burn of nothing instead (which every bank rejects). The model mirrors this rule.
    fn custom(_tag: u32, _fail: bool) -> CosmosMsg<Empty> {
        CosmosMsg::Bank(BankMsg::Burn { amount: vec![] })
    }
    fn opaque(m: &CosmosMsg<PMsg>) -> CosmosMsg<Empty> {
        match m.clone() {
            CosmosMsg::Bank(b) => CosmosMsg::Bank(b),
            CosmosMsg::Wasm(w) => CosmosMsg::Wasm(w),
            CosmosMsg::Staking(s) => CosmosMsg::Staking(s),
            CosmosMsg::Distribution(d) => CosmosMsg::Distribution(d),
            CosmosMsg::Ibc(i) => CosmosMsg::Ibc(i),
            CosmosMsg::Gov(g) => CosmosMsg::Gov(g),
            CosmosMsg::Any(a) => CosmosMsg::Any(a),
            #[allow(deprecated)]
            CosmosMsg::Stargate { type_url, value } => CosmosMsg::Stargate { type_url, value },
            _ => CosmosMsg::Bank(BankMsg::Burn { amount: vec![] }),
        }
    }
}

pub fn to_cosmos<C: Flavor>(m: &Msg) -> CosmosMsg<C> {
    match m {
        Msg::Exec { addr, script, funds } => CosmosMsg::Wasm(WasmMsg::Execute { contract_addr: addr.clone(), msg: to_json_binary(script).unwrap(), funds: funds.clone() }),
        Msg::Inst { code_id, script, funds, label, admin, salt } => match salt {
            None => CosmosMsg::Wasm(WasmMsg::Instantiate { admin: admin.clone(), code_id: *code_id, msg: to_json_binary(script).unwrap(), funds: funds.clone(), label: label.clone() }),
            Some(salt) => CosmosMsg::Wasm(WasmMsg::Instantiate2 {
                admin: admin.clone(),
                code_id: *code_id,
                msg: to_json_binary(script).unwrap(),
                funds: funds.clone(),
                label: label.clone(),
                salt: salt.clone(),
            }),
        },
        Msg::Migrate { addr, code_id, script } => CosmosMsg::Wasm(WasmMsg::Migrate { contract_addr: addr.clone(), new_code_id: *code_id, msg: to_json_binary(script).unwrap() }),
        Msg::UpdateAdmin { addr, admin } => CosmosMsg::Wasm(WasmMsg::UpdateAdmin { contract_addr: addr.clone(), admin: admin.clone() }),
        Msg::ClearAdmin { addr } => CosmosMsg::Wasm(WasmMsg::ClearAdmin { contract_addr: addr.clone() }),
        Msg::Garbled { kind, addr, code_id, bytes } => CosmosMsg::Wasm(match kind {
            0 => WasmMsg::Execute { contract_addr: addr.clone(), msg: bytes.clone(), funds: vec![] },
            1 => WasmMsg::Instantiate { admin: None, code_id: *code_id, msg: bytes.clone(), funds: vec![], label: "garbled".into() },
            _ => WasmMsg::Migrate { contract_addr: addr.clone(), new_code_id: *code_id, msg: bytes.clone() },
        }),
        Msg::BankSend { to, coins } => CosmosMsg::Bank(BankMsg::Send { to_address: to.clone(), amount: coins.clone() }),
        Msg::BankBurn { coins } => CosmosMsg::Bank(BankMsg::Burn { amount: coins.clone() }),
        Msg::Custom { tag, fail } => C::custom(*tag, *fail),
        Msg::Opaque(m) => C::opaque(m),
    }
}

pub fn payload_bytes(p: &Payload) -> Binary {
    match p {
        Payload::Plan(plan) => to_json_binary(plan).unwrap(),
        Payload::Raw(b) => b.clone(),
    }
}

// --- trace -----------------------------------------------------------------------------------------

#[derive(Clone, Debug, PartialEq, Serialize)]
pub enum Entry {
    Instantiate,
    Execute,
    Reply,
    Sudo,
    Migrate,
}

#[derive(Clone, Debug, PartialEq, Serialize)]
pub enum ReplySeen {
    Ok { events: Vec<Event>, data: Option<Binary> },
    Err,
}

#[derive(Clone, Debug, PartialEq, Serialize)]
pub struct TraceEv {
    pub entry: Entry,
    pub code_tag: u32,
    pub tag: u32,
    pub contract: String,
    pub block: (u64, u64, String),
    pub sender: Option<String>,
    pub funds: Vec<Coin>,
    /// own bank balance at entry (AllBalances of env.contract.address)
    pub balance: Vec<Coin>,
    /// own storage at entry
    pub storage: Vec<(Vec<u8>, Vec<u8>)>,
    /// probe results, each taken twice
    pub probes: Vec<(String, String)>,
    pub reply: Option<(u64, Vec<u8>, ReplySeen)>,
    /// own storage iterated in descending order: at entry, and again after the call's own writes
    pub storage_desc: (Vec<(Vec<u8>, Vec<u8>)>, Vec<(Vec<u8>, Vec<u8>)>),
}

thread_local! {
    pub static TRACE: RefCell<Vec<TraceEv>> = const { RefCell::new(Vec::new()) };
    /// `gas_used` of every delivered Reply: not part of any model comparison (the properties do not speak
    /// about it), but part of the determinism transcripts
    pub static REPLY_GAS: RefCell<Vec<u64>> = const { RefCell::new(Vec::new()) };
}

thread_local! {
    /// What each invocation found in `env.transaction` (part of the determinism transcripts only: no property
    /// says what it has to be, only that it cannot differ between executions of the same history).
    pub static ENV_TX: RefCell<Vec<Option<u32>>> = const { RefCell::new(Vec::new()) };
}

thread_local! {
    pub static EXTRAS: RefCell<Vec<String>> = const { RefCell::new(Vec::new()) };
}

pub fn take_extras() -> Vec<String> {
    EXTRAS.with(|t| std::mem::take(&mut *t.borrow_mut()))
}

pub fn take_env_tx() -> Vec<Option<u32>> {
    ENV_TX.with(|t| std::mem::take(&mut *t.borrow_mut()))
}

pub fn take_reply_gas() -> Vec<u64> {
    REPLY_GAS.with(|t| std::mem::take(&mut *t.borrow_mut()))
}

pub fn take_trace() -> Vec<TraceEv> {
    TRACE.with(|t| std::mem::take(&mut *t.borrow_mut()))
}

// --- interpreter -----------------------------------------------------------------------------------

fn run_probe<Q: CustomQuery>(deps: &Deps<Q>, env: &Env, p: &Probe) -> String {
    fn show<T: std::fmt::Debug>(r: StdResult<T>) -> String {
        match r {
            Ok(v) => format!("ok:{:?}", v),
            // error texts are not part of the comparison
            Err(_) => "err".to_string(),
        }
    }
    let _ = env;
    match p {
        Probe::Balance { addr, denom } => show(
            deps.querier
                .query::<BalanceResponse>(&QueryRequest::Bank(BankQuery::Balance { address: addr.clone(), denom: denom.clone() }))
                .map(|r| (r.amount.denom, r.amount.amount.u128())),
        ),
        #[allow(deprecated)]
        Probe::AllBalances { addr } => show(
            deps.querier
                .query::<AllBalanceResponse>(&QueryRequest::Bank(BankQuery::AllBalances { address: addr.clone() }))
                .map(|r| r.amount.into_iter().map(|c| (c.denom, c.amount.u128())).collect::<Vec<_>>()),
        ),
        Probe::Supply { denom } => show(
            deps.querier.query::<SupplyResponse>(&QueryRequest::Bank(BankQuery::Supply { denom: denom.clone() })).map(|r| (r.amount.denom, r.amount.amount.u128())),
        ),
        Probe::WasmRaw { addr, key } => show(deps.querier.query_wasm_raw(addr.clone(), key.to_vec()).map(|o| o.map(|v| crate::core::hex(&v)))),
        Probe::WasmSmart { addr } => show(deps.querier.query_wasm_smart::<(u32, Vec<(Binary, Binary)>)>(addr.clone(), &PuppetQuery::Dump {}).map(|(tag, v)| {
            (tag, v.into_iter().map(|(k, v)| format!("{}={}", crate::core::hex(&k), crate::core::hex(&v))).collect::<Vec<_>>())
        })),
        Probe::ContractInfo { addr } => show(
            deps.querier
                .query::<ContractInfoResponse>(&QueryRequest::Wasm(WasmQuery::ContractInfo { contract_addr: addr.clone() }))
                .map(|r| (r.code_id, r.creator.to_string(), r.admin.map(|a| a.to_string()))),
        ),
        Probe::CodeInfo { code_id } => show(
            deps.querier
                .query::<CodeInfoResponse>(&QueryRequest::Wasm(WasmQuery::CodeInfo { code_id: *code_id }))
                .map(|r| (r.code_id, r.creator.to_string(), r.checksum.to_hex())),
        ),
        Probe::Custom { n } => {
            // the custom query travels as raw JSON so that both flavours can issue it
            let req = format!("{{\"custom\":{{\"n\":{}}}}}", n);
            match deps.querier.raw_query(req.as_bytes()) {
                cosmwasm_std::SystemResult::Ok(cosmwasm_std::ContractResult::Ok(b)) => format!("ok:{}", crate::core::hex(&b)),
                _ => "err".to_string(),
            }
        }
        Probe::OwnRange { start, end, desc, what } => {
            let order = if *desc { Order::Descending } else { Order::Ascending };
            let (st, en) = (start.as_ref().map(|b| b.as_slice()), end.as_ref().map(|b| b.as_slice()));
            let v: Vec<String> = match what {
                1 => deps.storage.range_keys(st, en, order).map(|k| crate::core::hex(&k)).collect(),
                2 => deps.storage.range_values(st, en, order).map(|v| crate::core::hex(&v)).collect(),
                _ => deps.storage.range(st, en, order).map(|(k, v)| format!("{}={}", crate::core::hex(&k), crate::core::hex(&v))).collect(),
            };
            format!("ok:{:?}", v)
        }
        Probe::OwnGet { key } => format!("ok:{:?}", deps.storage.get(key.as_slice()).map(|v| crate::core::hex(&v))),
        Probe::RawQuery { request } => match deps.querier.raw_query(request.as_slice()) {
            cosmwasm_std::SystemResult::Ok(cosmwasm_std::ContractResult::Ok(b)) => format!("ok:{}", crate::core::hex(&b)),
            _ => "err".to_string(),
        },
    }
}

#[allow(clippy::too_many_arguments)]
fn interpret<C: Flavor, Q: CustomQuery>(
    deps: DepsMut<Q>,
    env: Env,
    entry: Entry,
    code_tag: u32,
    sender: Option<String>,
    funds: Vec<Coin>,
    script: &Script,
    reply: Option<(u64, Vec<u8>, ReplySeen)>,
) -> StdResult<Response<C>> {
    // observe first (state at entry), then act
    let storage: Vec<(Vec<u8>, Vec<u8>)> = deps.storage.range(None, None, Order::Ascending).collect();
    #[allow(deprecated)]
    let balance: Vec<Coin> = deps.querier.query_all_balances(env.contract.address.clone()).unwrap_or_default();
    let d = deps.as_ref();
    let probes: Vec<(String, String)> = script.probes.iter().map(|p| (run_probe(&d, &env, p), run_probe(&d, &env, p))).collect();
    ENV_TX.with(|t| t.borrow_mut().push(env.transaction.as_ref().map(|x| x.index)));
    // everything else a contract is handed and no property speaks about: determinism transcripts only
    EXTRAS.with(|t| t.borrow_mut().push(format!("env.transaction={:?}", env.transaction)));
    TRACE.with(|t| {
        t.borrow_mut().push(TraceEv {
            entry,
            code_tag,
            tag: script.tag,
            contract: env.contract.address.to_string(),
            block: (env.block.height, env.block.time.nanos(), env.block.chain_id.clone()),
            sender,
            funds,
            balance,
            storage,
            probes,
            reply,
            storage_desc: (deps.storage.range(None, None, Order::Descending).collect(), vec![]),
        })
    });
    let inconsistent = apply_writes(deps.storage, &script.writes);
    let mut after: Vec<(Vec<u8>, Vec<u8>)> = deps.storage.range(None, None, Order::Descending).collect();
    after.extend(inconsistent);
    TRACE.with(|t| {
        if let Some(last) = t.borrow_mut().last_mut() {
            last.storage_desc.1 = after;
        }
    });
    if script.fail {
        return Err(StdError::generic_err(format!("scripted failure at node {}", script.tag)));
    }
    let mut resp = Response::<C>::new();
    // Attribute::new panics on reserved keys in debug builds; scripts must be able to emit them
    for (k, v) in &script.attrs {
        resp.attributes.push(cosmwasm_std::testing::mock_wasmd_attr(k.clone(), v.clone()));
    }
    for e in &script.events {
        let mut ev = Event::new(e.ty.clone());
        for (k, v) in &e.attrs {
            ev = ev.add_attribute(k.clone(), v.clone());
        }
        resp = resp.add_event(ev);
    }
    if let Some(d) = &script.data {
        resp = resp.set_data(d.clone());
    }
    for s in &script.msgs {
        let sm = SubMsg::<C> { id: s.id, payload: payload_bytes(&s.payload), msg: to_cosmos::<C>(&s.msg), gas_limit: if s.id % 3 == 0 { Some(s.id) } else { None }, reply_on: s.mode.to_std() };
        resp = resp.add_submessage(sm);
    }
    Ok(resp)
}

/// Applies the scripted writes the way contracts do: read the key, write or remove it, read it again. What the single
/// reads answer needs no model: before the write the key holds what the iteration at entry (and this script's earlier
/// writes) showed, afterwards what was just written. Where a read answers something else, a marker record that no
/// storage ever holds is returned (it is appended to the "after own writes" listing of the trace).
fn apply_writes(storage: &mut dyn Storage, writes: &[(Binary, Option<Binary>)]) -> Vec<(Vec<u8>, Vec<u8>)> {
    let mut cur: std::collections::BTreeMap<Vec<u8>, Vec<u8>> = storage.range(None, None, Order::Ascending).collect();
    let mut bad = vec![];
    for (k, v) in writes {
        let before = storage.get(k.as_slice());
        if before.as_ref() != cur.get(k.as_slice()) {
            bad.push((format!("!get({}) before the write answers other than the iteration", crate::core::hex(k.as_slice())).into_bytes(), before.unwrap_or_default()));
        }
        match v {
            Some(v) => {
                storage.set(k.as_slice(), v.as_slice());
                cur.insert(k.to_vec(), v.to_vec());
            }
            None => {
                storage.remove(k.as_slice());
                cur.remove(k.as_slice());
            }
        }
        let after = storage.get(k.as_slice());
        if after.as_ref() != cur.get(k.as_slice()) {
            bad.push((format!("!get({}) after the write answers other than what was written", crate::core::hex(k.as_slice())).into_bytes(), after.unwrap_or_default()));
        }
    }
    bad
}

fn reply_script(reply: &Reply) -> (Script, (u64, Vec<u8>, ReplySeen)) {
    REPLY_GAS.with(|g| g.borrow_mut().push(reply.gas_used));
    match &reply.result {
        SubMsgResult::Ok(r) => EXTRAS.with(|t| t.borrow_mut().push(format!("reply.msg_responses={:?}", r.msg_responses))),
        // the error text a reply handler is handed can end up in contract state: it must not differ between executions
        SubMsgResult::Err(e) => EXTRAS.with(|t| t.borrow_mut().push(format!("reply.err={}", e))),
    }
    let seen = match &reply.result {
        #[allow(deprecated)]
        SubMsgResult::Ok(r) => {
            // the response data travels twice (the deprecated `data` field and `msg_responses`): where the
            // sub-message produced data, a message response carries exactly that data, and none carries other data —
            // otherwise the data seen is marked, which the comparison with the expected reply reports
            let d = r.data.clone().unwrap_or_default();
            let carried = r.data.is_none() || r.msg_responses.iter().any(|m| m.value == d);
            let foreign = r.msg_responses.iter().any(|m| !m.value.is_empty() && m.value != d);
            let data = if carried && !foreign { r.data.clone() } else { Some(Binary::from([d.as_slice(), b"!msg_responses carry other data than the data field"].concat())) };
            ReplySeen::Ok { events: r.events.clone(), data }
        }
        SubMsgResult::Err(_) => ReplySeen::Err,
    };
    let script = match serde_json::from_slice::<ReplyPlan>(reply.payload.as_slice()) {
        Ok(plan) => {
            if matches!(seen, ReplySeen::Err) {
                plan.on_err
            } else {
                plan.on_ok
            }
        }
        // arbitrary (non-plan) payload: default reply, tagged so the trace entry is attributable
        Err(_) => Script { tag: 0xFFFF_0000 | (reply.id as u32 & 0xFFFF), ..Default::default() },
    };
    (script, (reply.id, reply.payload.to_vec(), seen))
}

#[derive(Serialize, Deserialize, Clone, Debug, PartialEq)]
pub enum PuppetQuery {
    Dump {},
    /// the contract's storage between the bounds, in the given order, advanced past `skip` records
    Range { start: Option<Binary>, end: Option<Binary>, desc: bool, skip: u32 },
}

/// The smart query answers with the tag of the code that serves it and the contract's storage.
fn do_query(storage: &dyn Storage, code_tag: u32) -> StdResult<Binary> {
    do_query_msg(storage, code_tag, &PuppetQuery::Dump {})
}

fn do_query_msg(storage: &dyn Storage, code_tag: u32, q: &PuppetQuery) -> StdResult<Binary> {
    let (start, end, order, skip) = match q {
        PuppetQuery::Dump {} => (None, None, Order::Ascending, 0usize),
        PuppetQuery::Range { start, end, desc, skip } => (start.as_ref().map(|b| b.as_slice()), end.as_ref().map(|b| b.as_slice()), if *desc { Order::Descending } else { Order::Ascending }, *skip as usize),
    };
    let mut v: Vec<(Binary, Binary)> = storage.range(start, end, order).skip(skip).map(|(k, v)| (Binary::from(k), Binary::from(v))).collect();
    // the key-only and value-only iterations of the same read-only view list the same records; where they do not,
    // the answer carries a record no storage ever holds, which every comparison of this answer reports
    let keys: Vec<Binary> = storage.range_keys(start, end, order).skip(skip).map(Binary::from).collect();
    let values: Vec<Binary> = storage.range_values(start, end, order).skip(skip).map(Binary::from).collect();
    if keys != v.iter().map(|(k, _)| k.clone()).collect::<Vec<_>>() {
        v.push((Binary::from(b"!range_keys lists other keys than range".to_vec()), to_json_binary(&keys)?));
    }
    if values != v.iter().filter(|(k, _)| !k.as_slice().starts_with(b"!range_keys lists")).map(|(_, x)| x.clone()).collect::<Vec<_>>() {
        v.push((Binary::from(b"!range_values lists other values than range".to_vec()), to_json_binary(&values)?));
    }
    to_json_binary(&(code_tag, v))
}

// --- flavour 1: implements the public `Contract` trait directly, chain's custom types -----------

pub struct Puppet {
    pub code_tag: u32,
    pub checksum: Option<cosmwasm_std::Checksum>,
}

fn parse(msg: &[u8]) -> AnyResult<Script> {
    serde_json::from_slice::<Script>(msg).map_err(|e| anyhow::anyhow!("script parse: {}", e))
}

impl Contract<PMsg, PQuery> for Puppet {
    fn execute(&self, deps: DepsMut<PQuery>, env: Env, info: MessageInfo, msg: Vec<u8>) -> AnyResult<Response<PMsg>> {
        let s = parse(&msg)?;
        Ok(interpret::<PMsg, PQuery>(deps, env, Entry::Execute, self.code_tag, Some(info.sender.to_string()), info.funds, &s, None)?)
    }
    fn instantiate(&self, deps: DepsMut<PQuery>, env: Env, info: MessageInfo, msg: Vec<u8>) -> AnyResult<Response<PMsg>> {
        let s = parse(&msg)?;
        Ok(interpret::<PMsg, PQuery>(deps, env, Entry::Instantiate, self.code_tag, Some(info.sender.to_string()), info.funds, &s, None)?)
    }
    fn query(&self, deps: Deps<PQuery>, _env: Env, msg: Vec<u8>) -> AnyResult<Binary> {
        let q = serde_json::from_slice::<PuppetQuery>(&msg).unwrap_or(PuppetQuery::Dump {});
        Ok(do_query_msg(deps.storage, self.code_tag, &q)?)
    }
    fn sudo(&self, deps: DepsMut<PQuery>, env: Env, msg: Vec<u8>) -> AnyResult<Response<PMsg>> {
        let s = parse(&msg)?;
        Ok(interpret::<PMsg, PQuery>(deps, env, Entry::Sudo, self.code_tag, None, vec![], &s, None)?)
    }
    fn reply(&self, deps: DepsMut<PQuery>, env: Env, msg: Reply) -> AnyResult<Response<PMsg>> {
        let (s, seen) = reply_script(&msg);
        Ok(interpret::<PMsg, PQuery>(deps, env, Entry::Reply, self.code_tag, None, vec![], &s, Some(seen))?)
    }
    fn migrate(&self, deps: DepsMut<PQuery>, env: Env, msg: Vec<u8>) -> AnyResult<Response<PMsg>> {
        let s = parse(&msg)?;
        Ok(interpret::<PMsg, PQuery>(deps, env, Entry::Migrate, self.code_tag, None, vec![], &s, None)?)
    }
    fn checksum(&self) -> Option<cosmwasm_std::Checksum> {
        self.checksum
    }
}

// --- flavour 2: written against `Empty`, lifted by ContractWrapper::new_with_empty -----------------

pub const LIFTED_TAG: u32 = 900;

fn e_execute(deps: DepsMut, env: Env, info: MessageInfo, s: Script) -> StdResult<Response> {
    interpret::<Empty, Empty>(deps, env, Entry::Execute, LIFTED_TAG, Some(info.sender.to_string()), info.funds, &s, None)
}
fn e_instantiate(deps: DepsMut, env: Env, info: MessageInfo, s: Script) -> StdResult<Response> {
    interpret::<Empty, Empty>(deps, env, Entry::Instantiate, LIFTED_TAG, Some(info.sender.to_string()), info.funds, &s, None)
}
fn e_query(deps: Deps, _env: Env, m: PuppetQuery) -> StdResult<Binary> {
    do_query_msg(deps.storage, LIFTED_TAG, &m)
}
fn e_sudo(deps: DepsMut, env: Env, s: Script) -> StdResult<Response> {
    interpret::<Empty, Empty>(deps, env, Entry::Sudo, LIFTED_TAG, None, vec![], &s, None)
}
fn e_reply(deps: DepsMut, env: Env, msg: Reply) -> StdResult<Response> {
    let (s, seen) = reply_script(&msg);
    interpret::<Empty, Empty>(deps, env, Entry::Reply, LIFTED_TAG, None, vec![], &s, Some(seen))
}
fn e_migrate(deps: DepsMut, env: Env, s: Script) -> StdResult<Response> {
    interpret::<Empty, Empty>(deps, env, Entry::Migrate, LIFTED_TAG, None, vec![], &s, None)
}

pub fn lifted_puppet() -> Box<dyn Contract<PMsg, PQuery>> {
    Box::new(
        ContractWrapper::<_, _, _, _, _, _, PMsg, PQuery>::new_with_empty(e_execute, e_instantiate, e_query)
            .with_reply_empty(e_reply)
            .with_sudo_empty(e_sudo)
            .with_migrate_empty(e_migrate),
    )
}


// --- flavour 3: ContractWrapper with only some of the optional entry points --------------------------

/// Code tag of a partial puppet: 910 + (reply ? 1 : 0) + (sudo ? 2 : 0) + (migrate ? 4 : 0).
pub fn partial_tag(reply: bool, sudo: bool, migrate: bool) -> u32 {
    910 + reply as u32 + 2 * sudo as u32 + 4 * migrate as u32
}

fn p_execute<const TAG: u32>(deps: DepsMut<PQuery>, env: Env, info: MessageInfo, s: Script) -> StdResult<Response<PMsg>> {
    interpret::<PMsg, PQuery>(deps, env, Entry::Execute, TAG, Some(info.sender.to_string()), info.funds, &s, None)
}
fn p_instantiate<const TAG: u32>(deps: DepsMut<PQuery>, env: Env, info: MessageInfo, s: Script) -> StdResult<Response<PMsg>> {
    interpret::<PMsg, PQuery>(deps, env, Entry::Instantiate, TAG, Some(info.sender.to_string()), info.funds, &s, None)
}
fn p_query<const TAG: u32>(deps: Deps<PQuery>, _env: Env, m: PuppetQuery) -> StdResult<Binary> {
    do_query_msg(deps.storage, TAG, &m)
}
fn p_sudo<const TAG: u32>(deps: DepsMut<PQuery>, env: Env, s: Script) -> StdResult<Response<PMsg>> {
    interpret::<PMsg, PQuery>(deps, env, Entry::Sudo, TAG, None, vec![], &s, None)
}
fn p_reply<const TAG: u32>(deps: DepsMut<PQuery>, env: Env, msg: Reply) -> StdResult<Response<PMsg>> {
    let (s, seen) = reply_script(&msg);
    interpret::<PMsg, PQuery>(deps, env, Entry::Reply, TAG, None, vec![], &s, Some(seen))
}
fn p_migrate<const TAG: u32>(deps: DepsMut<PQuery>, env: Env, s: Script) -> StdResult<Response<PMsg>> {
    interpret::<PMsg, PQuery>(deps, env, Entry::Migrate, TAG, None, vec![], &s, None)
}

macro_rules! partial {
    ($tag:expr $(, $with:ident($f:ident))*) => {
        Box::new(ContractWrapper::new(p_execute::<{ $tag }>, p_instantiate::<{ $tag }>, p_query::<{ $tag }>)$(.$with($f::<{ $tag }>))*) as Box<dyn Contract<PMsg, PQuery>>
    };
}

/// A contract assembled by `ContractWrapper::new` with exactly the listed optional entry points.
pub fn partial_puppet(reply: bool, sudo: bool, migrate: bool) -> Box<dyn Contract<PMsg, PQuery>> {
    match (reply, sudo, migrate) {
        (false, false, false) => partial!(910),
        (true, false, false) => partial!(911, with_reply(p_reply)),
        (false, true, false) => partial!(912, with_sudo(p_sudo)),
        (true, true, false) => partial!(913, with_reply(p_reply), with_sudo(p_sudo)),
        (false, false, true) => partial!(914, with_migrate(p_migrate)),
        (true, false, true) => partial!(915, with_migrate(p_migrate), with_reply(p_reply)),
        (false, true, true) => partial!(916, with_sudo(p_sudo), with_migrate(p_migrate)),
        (true, true, true) => partial!(917, with_migrate(p_migrate), with_sudo(p_sudo), with_reply(p_reply)),
    }
}
