//! Reference ledger: address -> denom -> amount. Written from the property statement (C09),
//! no dependency on cw-multi-test.

use std::collections::BTreeMap;

pub type Coins = Vec<(String, u128)>; // (denom, amount), duplicates and zeros allowed

/// Witness files are JSON, whose numbers end at 64 bits here: amounts travel as decimal strings (plain numbers are
/// still read, for witnesses written before).
pub mod coins_serde {
    use serde::{Deserialize, Deserializer, Serialize, Serializer};
    #[derive(Deserialize)]
    #[serde(untagged)]
    enum Amount {
        Num(u64),
        Text(String),
    }
    pub fn serialize<S: Serializer>(c: &super::Coins, s: S) -> Result<S::Ok, S::Error> {
        c.iter().map(|(d, a)| (d.clone(), a.to_string())).collect::<Vec<(String, String)>>().serialize(s)
    }
    pub fn deserialize<'de, D: Deserializer<'de>>(d: D) -> Result<super::Coins, D::Error> {
        let v: Vec<(String, Amount)> = Vec::deserialize(d)?;
        v.into_iter()
            .map(|(d, a)| match a {
                Amount::Num(n) => Ok((d, n as u128)),
                Amount::Text(t) => t.parse::<u128>().map(|n| (d, n)).map_err(serde::de::Error::custom),
            })
            .collect()
    }
}

#[derive(Clone, Debug, Default, PartialEq, Eq)]
pub struct Ledger {
    pub accounts: BTreeMap<String, BTreeMap<String, u128>>,
}

impl Ledger {
    pub fn bal(&self, addr: &str, denom: &str) -> u128 {
        self.accounts.get(addr).and_then(|m| m.get(denom)).copied().unwrap_or(0)
    }

    /// All non-zero balances of an account, sorted by denomination.
    pub fn all(&self, addr: &str) -> Vec<(String, u128)> {
        self.accounts
            .get(addr)
            .map(|m| m.iter().filter(|(_, v)| **v > 0).map(|(k, v)| (k.clone(), *v)).collect())
            .unwrap_or_default()
    }

    pub fn supply(&self, denom: &str) -> u128 {
        self.accounts.values().map(|m| m.get(denom).copied().unwrap_or(0)).sum()
    }

    pub fn denoms(&self) -> Vec<String> {
        let mut d: Vec<String> = self.accounts.values().flat_map(|m| m.keys().cloned()).collect();
        d.sort();
        d.dedup();
        d
    }

    pub fn has_positive(coins: &Coins) -> bool {
        coins.iter().any(|(_, a)| *a > 0)
    }

    /// A debit is valid iff some amount is positive and, per denomination, the cumulative
    /// requested amount does not exceed the balance.
    pub fn can_debit(&self, from: &str, coins: &Coins) -> bool {
        if !Self::has_positive(coins) {
            return false;
        }
        let mut need: BTreeMap<&str, u128> = BTreeMap::new();
        for (d, a) in coins {
            *need.entry(d.as_str()).or_insert(0) += *a;
        }
        need.iter().all(|(d, n)| *n <= self.bal(from, d))
    }

    fn debit(&mut self, from: &str, coins: &Coins) {
        for (d, a) in coins {
            if *a > 0 {
                let e = self.accounts.entry(from.to_string()).or_default().entry(d.clone()).or_insert(0);
                *e -= *a;
            }
        }
    }

    fn credit(&mut self, to: &str, coins: &Coins) {
        for (d, a) in coins {
            if *a > 0 {
                *self.accounts.entry(to.to_string()).or_default().entry(d.clone()).or_insert(0) += *a;
            }
        }
    }

    /// True if crediting `coins` to `to` would take a balance beyond the 128-bit range (no implementation can do
    /// that without losing coins: the operation has to fail).
    pub fn credit_overflows(&self, to: &str, coins: &Coins) -> bool {
        let mut add: BTreeMap<&str, u128> = BTreeMap::new();
        for (d, a) in coins {
            let e = add.entry(d.as_str()).or_insert(0);
            match e.checked_add(*a) {
                Some(x) => *e = x,
                None => return true,
            }
        }
        add.iter().any(|(d, a)| self.bal(to, d).checked_add(*a).is_none())
    }

    /// Returns false (and changes nothing) if invalid.
    pub fn send(&mut self, from: &str, to: &str, coins: &Coins) -> bool {
        if !self.can_debit(from, coins) {
            return false;
        }
        self.debit(from, coins);
        self.credit(to, coins);
        true
    }

    pub fn burn(&mut self, from: &str, coins: &Coins) -> bool {
        if !self.can_debit(from, coins) {
            return false;
        }
        self.debit(from, coins);
        true
    }

    pub fn mint(&mut self, to: &str, coins: &Coins) -> bool {
        if !Self::has_positive(coins) {
            return false;
        }
        self.credit(to, coins);
        true
    }
}
