//! Reference model of the chain (DESIGN.md Appendix A): a direct transcription of the property
//! statements / wasmd rules. No dependency on cw-multi-test; it shares only the script types and
//! the trace record format with the puppet contracts.

use crate::model::bank::{Coins, Ledger};
use crate::puppet::*;
use cosmwasm_std::testing::{mock_wasmd_attr, MockApi};
use cosmwasm_std::{Api, Binary, Coin, Event};
use sha2::{Digest, Sha256};
use std::collections::BTreeMap;

#[derive(Clone, Debug, PartialEq)]
pub struct CodeM {
    pub creator: String,
    pub checksum: Vec<u8>,
    pub code_tag: u32,
    pub lifted: bool,
    /// optional entry points the code has: (reply, sudo, migrate)
    pub entry_points: (bool, bool, bool),
}

#[derive(Clone, Debug, PartialEq)]
pub struct ContractM {
    pub code_id: u64,
    pub creator: String,
    pub admin: Option<String>,
    pub label: String,
    pub created: u64,
    pub storage: BTreeMap<Vec<u8>, Vec<u8>>,
}

#[derive(Clone, Debug, PartialEq)]
pub struct State {
    pub bank: Ledger,
    pub contracts: BTreeMap<String, ContractM>,
    /// records of the chain's custom module (it writes one per message it is handed, before it accepts or rejects)
    pub custom: BTreeMap<Vec<u8>, Vec<u8>>,
}

/// Raw key of the record the custom module writes for message `tag`.
pub fn custom_record_key(tag: u32) -> Vec<u8> {
    let mut k = crate::rawstate::prefix(&[b"vcustom"]);
    k.extend_from_slice(format!("{}", tag).as_bytes());
    k
}

#[derive(Clone, Debug)]
pub struct ChainM {
    pub st: State,
    pub codes: BTreeMap<u64, CodeM>,
    pub block: (u64, u64, String),
    pub api: ApiKind,
    /// the wasm keeper's address generator gives every code one address only (instead of one per instance)
    pub one_address_per_code: bool,
}

#[derive(Clone, Debug, PartialEq)]
pub struct Resp {
    pub events: Vec<Event>,
    pub data: Option<Vec<u8>>,
}

#[derive(Clone, Debug, PartialEq, Eq, Hash, PartialOrd, Ord)]
pub enum Why {
    ContractError,
    BadAttribute,
    Overdraft,
    /// a credit that would take a balance beyond the 128-bit range: the operation has to fail (the simulator panics)
    BalanceOverflow,
    NoPositiveAmount,
    UnknownContract,
    InvalidAddress,
    DuplicateAddress,
    EmptyLabel,
    NoSuchCode,
    NotAdmin,
    /// the contract's code has no such entry point
    NoEntryPoint,
    BadSalt,
    CustomFailed,
}

/// What the model observed while executing (coverage + expected trace).
#[derive(Default, Debug)]
pub struct Out {
    pub trace: Vec<TraceEv>,
    /// failures that happened anywhere in the tree (caught or not), with depth
    pub failures: Vec<(Why, usize, bool)>, // (why, depth, caught)
    /// (mode, child ok, reply invoked, reply ok, depth)
    pub submsgs: Vec<(RMode, bool, bool, Option<bool>, usize)>,
    pub rolled_back_writes: u64,
    pub max_depth: usize,
    pub created: Vec<String>,
    pub data_cases: Vec<&'static str>,
    pub attr_strings: u64,
    /// coverage notes (e.g. an alternative address spelling accepted by the codec)
    pub notes: Vec<&'static str>,
}

/// The address codec the chain is built with. `Std` is cosmwasm_std's MockApi (a dependency, not the code under
/// test); `Bech32`/`Bech32m` are the crate's own codecs. All of them accept exactly the normalised spelling of an
/// address and return it unchanged (C18 decides the codecs themselves; here a reference on the bech32 crate suffices).
/// Should a codec ever accept another spelling, the model's `norm` is where that would be described.
#[derive(Clone, Copy, Debug, PartialEq, Eq, Default, serde::Serialize, serde::Deserialize)]
pub enum ApiKind {
    #[default]
    Std,
    Bech32,
    Bech32m,
    /// a user-written codec for a chain whose addresses are plain case-sensitive strings (any non-empty string is an
    /// address, canonical form = its bytes); such a chain is built with the address generator `PlainNames`, whose
    /// addresses differ in letter case only, are prefixes of one another, or contain separators
    Plain,
}

pub const PREFIX: &str = "cosmwasm";

impl ApiKind {
    pub fn canonicalize(&self, s: &str) -> Option<Vec<u8>> {
        use bech32::primitives::decode::CheckedHrpstring;
        match self {
            ApiKind::Std => MockApi::default().addr_canonicalize(s).ok().map(|c| c.to_vec()),
            ApiKind::Bech32 => CheckedHrpstring::new::<bech32::Bech32>(s).ok().filter(|h| h.hrp().to_string() == PREFIX).map(|h| h.byte_iter().collect()),
            ApiKind::Bech32m => CheckedHrpstring::new::<bech32::Bech32m>(s).ok().filter(|h| h.hrp().to_string() == PREFIX).map(|h| h.byte_iter().collect()),
            ApiKind::Plain => Some(s.as_bytes().to_vec()).filter(|b| !b.is_empty()),
        }
    }

    pub fn humanize(&self, canon: &[u8]) -> Option<String> {
        let hrp = bech32::Hrp::parse(PREFIX).unwrap();
        match self {
            ApiKind::Std => MockApi::default().addr_humanize(&canon.to_vec().into()).ok().map(|a| a.to_string()),
            ApiKind::Bech32 => bech32::encode::<bech32::Bech32>(hrp, canon).ok(),
            ApiKind::Bech32m => bech32::encode::<bech32::Bech32m>(hrp, canon).ok(),
            ApiKind::Plain => String::from_utf8(canon.to_vec()).ok().filter(|s| !s.is_empty()),
        }
    }

    /// What `addr_validate` answers: the normalised spelling, or None if rejected.
    pub fn norm(&self, s: &str) -> Option<String> {
        match self {
            ApiKind::Std => MockApi::default().addr_validate(s).ok().filter(|a| a.as_str() == s).map(|a| a.to_string()),
            // the crate's codecs accept what decodes under the prefix and is already the normalised spelling
            _ => self.humanize(&self.canonicalize(s)?).filter(|n| n == s),
        }
    }

    pub fn addr_make(&self, name: &str) -> String {
        if *self == ApiKind::Plain {
            // users whose names differ in letter case only
            return match name {
                "user0" => "Trader".to_string(),
                "user1" => "trader".to_string(),
                "user2" => "TRADER".to_string(),
                other => other.to_string(),
            };
        }
        self.humanize(&Sha256::digest(name.as_bytes())).unwrap()
    }
}

fn to_coins(c: &[Coin]) -> Coins {
    c.iter().map(|x| (x.denom.clone(), x.amount.u128())).collect()
}

pub fn coins_string(c: &[Coin]) -> String {
    c.iter().map(|x| format!("{}{}", x.amount.u128(), x.denom)).collect::<Vec<_>>().join(",")
}

fn trimmed(s: &str) -> &str {
    s.trim_matches(|c: char| c.is_whitespace())
}

pub fn attr_key_ok(k: &str) -> bool {
    let t = trimmed(k);
    !t.is_empty() && !t.starts_with('_')
}

pub fn event_type_ok(t: &str) -> bool {
    trimmed(t).len() >= 2
}

pub fn script_response_ok(s: &Script) -> bool {
    s.attrs.iter().all(|(k, _)| attr_key_ok(k)) && s.events.iter().all(|e| event_type_ok(&e.ty) && e.attrs.iter().all(|(k, _)| attr_key_ok(k)))
}

// --- protobuf (independent 20-line encoder) ----------------------------------------------------

fn varint(mut n: usize, out: &mut Vec<u8>) {
    loop {
        let b = (n & 0x7F) as u8;
        n >>= 7;
        if n == 0 {
            out.push(b);
            break;
        }
        out.push(b | 0x80);
    }
}

fn pb_bytes_field(tag: u8, data: &[u8], out: &mut Vec<u8>) {
    // proto3: empty bytes / strings are omitted
    if !data.is_empty() {
        out.push((tag << 3) | 2);
        varint(data.len(), out);
        out.extend_from_slice(data);
    }
}

pub fn wrap_exec(data: Option<Vec<u8>>) -> Option<Vec<u8>> {
    data.map(|d| {
        let mut out = vec![];
        pb_bytes_field(1, &d, &mut out);
        out
    })
}

pub fn wrap_instantiate(addr: &str, data: Option<Vec<u8>>) -> Vec<u8> {
    let mut out = vec![];
    pb_bytes_field(1, addr.as_bytes(), &mut out);
    pb_bytes_field(2, &data.unwrap_or_default(), &mut out);
    out
}

// --- addresses -------------------------------------------------------------------------------------

/// What the address generator `PlainNames` hands to the instance with this number.
pub fn plain_contract_name(instance: u64) -> String {
    match instance {
        0 => "Vault".to_string(),
        1 => "vault".to_string(),
        // the last byte one higher than another contract's: the two namespaces are neighbours
        2 => "vaulu".to_string(),
        3 => "vaulT".to_string(),
        4 => "VAULT".to_string(),
        5 => "vault/".to_string(),
        6 => "vaul".to_string(),
        7 => "vault\u{1}".to_string(),
        8 => "contract_data/vault".to_string(),
        9 => "vauls".to_string(),
        10 => "vault0".to_string(),
        11 => "vault\u{0}".to_string(),
        n => format!("{}{}", if n % 2 == 0 { "Pool" } else { "pool" }, n / 2),
    }
}

/// The record in which the address generator `SequenceNames` keeps its counter (it lives in chain storage, under
/// the custom module's namespace, and is rolled back with everything else).
pub const SEQUENCE_TAG: u32 = 999_999_999;

/// What `SequenceNames` hands out as its n-th address.
pub fn sequence_contract_name(n: u64) -> String {
    format!("seq-{}", n)
}

pub fn classic_address(api: ApiKind, code_id: u64, instance: u64) -> String {
    if api == ApiKind::Plain {
        return plain_contract_name(instance);
    }
    let mut key = b"wasm\0".to_vec();
    key.extend_from_slice(&code_id.to_be_bytes());
    key.extend_from_slice(&instance.to_be_bytes());
    let module = Sha256::digest(b"module");
    let mut h = Sha256::new();
    h.update(module);
    h.update(&key);
    let canon = h.finalize().to_vec();
    api.humanize(&canon).unwrap()
}

pub fn salted_address(api: ApiKind, checksum: &[u8], creator: &str, salt: &[u8]) -> Option<String> {
    let canon = api.canonicalize(creator)?;
    let a = cosmwasm_std::instantiate2_address(checksum, &canon.into(), salt).ok()?;
    api.humanize(a.as_slice())
}

pub fn default_checksum(code_id: u64) -> Vec<u8> {
    Sha256::digest(format!("contract code {}", code_id).as_bytes()).to_vec()
}

// --- the model ---------------------------------------------------------------------------------------

fn ok_str<T: std::fmt::Debug>(v: T) -> String {
    format!("ok:{:?}", v)
}

impl ChainM {
    pub fn new(block: (u64, u64, String)) -> Self {
        ChainM { st: State { bank: Ledger::default(), contracts: BTreeMap::new(), custom: BTreeMap::new() }, codes: BTreeMap::new(), block, api: ApiKind::Std, one_address_per_code: false }
    }

    /// `api.norm`, noting for coverage when another spelling of a decodable address is accepted or rejected.
    fn norm_noted(&self, s: &str, out: &mut Out) -> Option<String> {
        let n = self.api.norm(s);
        match &n {
            Some(a) if a != s => out.notes.push("respelled-address-accepted"),
            None if self.api.canonicalize(s).is_some() || self.api.canonicalize(&s.to_lowercase()).is_some() => out.notes.push("respelled-address-rejected"),
            _ => {}
        }
        n
    }

    /// One more than the largest identifier in use; none when that is u64::MAX.
    pub fn next_code_id(&self) -> Option<u64> {
        self.codes.keys().last().copied().unwrap_or(0).checked_add(1)
    }

    fn probe(&self, me: &str, p: &Probe) -> String {
        let hexs = crate::core::hex;
        match p {
            Probe::Balance { addr, denom } => {
                let addr = &match self.api.norm(addr) {
                    Some(a) => a,
                    None => return "err".into(),
                };
                ok_str((denom.clone(), self.st.bank.bal(addr, denom)))
            }
            Probe::AllBalances { addr } => {
                let addr = &match self.api.norm(addr) {
                    Some(a) => a,
                    None => return "err".into(),
                };
                ok_str(self.st.bank.all(addr))
            }
            Probe::Supply { denom } => ok_str((denom.clone(), self.st.bank.supply(denom))),
            Probe::WasmRaw { addr, key } => {
                let addr = &match self.api.norm(addr) {
                    Some(a) => a,
                    None => return "err".into(),
                };
                let v = self.st.contracts.get(addr).and_then(|c| c.storage.get(key.as_slice())).map(|v| hexs(v));
                ok_str(v)
            }
            Probe::WasmSmart { addr } => {
                let addr = &match self.api.norm(addr) {
                    Some(a) => a,
                    None => return "err".into(),
                };
                match self.st.contracts.get(addr) {
                    Some(c) if self.codes.contains_key(&c.code_id) => ok_str((self.codes[&c.code_id].code_tag, c.storage.iter().map(|(k, v)| format!("{}={}", hexs(k), hexs(v))).collect::<Vec<_>>())),
                    _ => "err".into(),
                }
            }
            Probe::ContractInfo { addr } => {
                let addr = &match self.api.norm(addr) {
                    Some(a) => a,
                    None => return "err".into(),
                };
                match self.st.contracts.get(addr) {
                    Some(c) => ok_str((c.code_id, c.creator.clone(), c.admin.clone())),
                    None => "err".into(),
                }
            }
            Probe::CodeInfo { code_id } => match self.codes.get(code_id) {
                Some(c) => ok_str((*code_id, c.creator.clone(), hexs(&c.checksum))),
                None => "err".into(),
            },
            Probe::Custom { n } => format!("ok:{}", hexs(custom_query_answer(*n).as_bytes())),
            Probe::OwnRange { start, end, desc, what } => {
                let c = &self.st.contracts[me];
                let mut v: Vec<String> = c
                    .storage
                    .iter()
                    .filter(|(k, _)| start.as_ref().map_or(true, |s| k.as_slice() >= s.as_slice()) && end.as_ref().map_or(true, |e| k.as_slice() < e.as_slice()))
                    .map(|(k, v)| match what {
                        1 => hexs(k),
                        2 => hexs(v),
                        _ => format!("{}={}", hexs(k), hexs(v)),
                    })
                    .collect();
                if *desc {
                    v.reverse();
                }
                ok_str(v)
            }
            Probe::OwnGet { key } => ok_str(self.st.contracts[me].storage.get(key.as_slice()).map(|v| hexs(v))),
            Probe::RawQuery { .. } => "unmodelled".into(),
        }
    }

    /// One top-level transaction of several messages: all or nothing.
    pub fn exec_top(&mut self, sender: &str, msgs: &[Msg], out: &mut Out) -> Result<Vec<Resp>, Why> {
        let snap = self.st.clone();
        let mut res = vec![];
        for m in msgs {
            match self.dispatch(sender, m, false, 1, out) {
                Ok(r) => res.push(r),
                Err(w) => {
                    out.rolled_back_writes += count_diff(&snap, &self.st);
                    out.failures.push((w.clone(), 0, false));
                    self.st = snap;
                    return Err(w);
                }
            }
        }
        Ok(res)
    }

    pub fn sudo_top(&mut self, contract: &str, script: &Script, out: &mut Out) -> Result<Resp, Why> {
        let snap = self.st.clone();
        match self.run_entry(Entry::Sudo, contract, None, vec![], script, None, 1, out) {
            Ok(r) => Ok(r),
            Err(w) => {
                out.rolled_back_writes += count_diff(&snap, &self.st);
                out.failures.push((w.clone(), 0, false));
                self.st = snap;
                Err(w)
            }
        }
    }

    pub fn mint_top(&mut self, to: &str, coins: &[Coin]) -> Result<Resp, Why> {
        let to = &match self.api.norm(to) {
            Some(a) => a,
            None => return Err(Why::InvalidAddress),
        };
        if !self.st.bank.mint(to, &to_coins(coins)) {
            return Err(Why::NoPositiveAmount);
        }
        Ok(Resp { events: vec![], data: None })
    }

    fn bank_debit_why(&self, from: &str, coins: &Coins) -> Why {
        if !Ledger::has_positive(coins) {
            Why::NoPositiveAmount
        } else {
            let _ = from;
            Why::Overdraft
        }
    }

    pub fn dispatch(&mut self, sender: &str, msg: &Msg, sender_lifted: bool, depth: usize, out: &mut Out) -> Result<Resp, Why> {
        out.max_depth = out.max_depth.max(depth);
        match msg {
            Msg::BankSend { to, coins } => {
                let c = to_coins(coins);
                if self.st.bank.can_debit(sender, &c) && sender != to && self.st.bank.credit_overflows(to, &c) {
                    return Err(Why::BalanceOverflow);
                }
                if !self.st.bank.send(sender, to, &c) {
                    return Err(self.bank_debit_why(sender, &c));
                }
                let ev = Event::new("transfer").add_attribute("recipient", to.clone()).add_attribute("sender", sender.to_string()).add_attribute("amount", coins_string(coins));
                Ok(Resp { events: vec![ev], data: None })
            }
            Msg::BankBurn { coins } => {
                let c = to_coins(coins);
                if !self.st.bank.burn(sender, &c) {
                    return Err(self.bank_debit_why(sender, &c));
                }
                Ok(Resp { events: vec![], data: None })
            }
            Msg::Custom { tag, fail } => {
                if sender_lifted {
                    // a contract written against Empty sends a burn of nothing instead (see puppet::Flavor)
                    return Err(Why::NoPositiveAmount);
                }
                // the module records the message first and decides afterwards: a rejected message's record is rolled
                // back with everything else
                self.st.custom.insert(custom_record_key(*tag), format!("from:{}", sender).into_bytes());
                if *fail {
                    return Err(Why::CustomFailed);
                }
                Ok(custom_exec_answer(sender, *tag))
            }
            Msg::Exec { addr, script, funds } => {
                let addr = &match self.norm_noted(addr, out) {
                    Some(a) => a,
                    None => return Err(Why::InvalidAddress),
                };
                if out.created.contains(addr) && self.st.contracts.contains_key(addr) {
                    out.notes.push("call-to-a-contract-created-earlier-in-this-transaction");
                }
                if !funds.is_empty() {
                    let c = to_coins(funds);
                    if self.st.bank.can_debit(sender, &c) && sender != addr && self.st.bank.credit_overflows(addr, &c) {
                        return Err(Why::BalanceOverflow);
                    }
                    if !self.st.bank.send(sender, addr, &c) {
                        return Err(self.bank_debit_why(sender, &c));
                    }
                }
                let r = self.run_entry(Entry::Execute, addr, Some(sender.to_string()), funds.clone(), script, None, depth, out)?;
                out.data_cases.push(if r.data.is_some() { "execute-data-wrapped" } else { "execute-no-data" });
                Ok(Resp { events: r.events, data: wrap_exec(r.data) })
            }
            Msg::Inst { code_id, script, funds, label, admin, salt } => {
                if label.is_empty() {
                    return Err(Why::EmptyLabel);
                }
                let code = match self.codes.get(code_id) {
                    Some(c) => c.clone(),
                    None => return Err(Why::NoSuchCode),
                };
                let addr = match salt {
                    // a stateful generator (plain-address chains with the alternative generator): every call hands out
                    // the next name of a sequence kept in chain storage — it is asked once per instantiation
                    None if self.api == ApiKind::Plain && self.one_address_per_code => {
                        let key = custom_record_key(SEQUENCE_TAG);
                        let n: u64 = self.st.custom.get(&key).and_then(|v| String::from_utf8_lossy(v).trim_start_matches("from:seq").parse().ok()).unwrap_or(0);
                        self.st.custom.insert(key, format!("from:seq{}", n + 1).into_bytes());
                        sequence_contract_name(n)
                    }
                    None => classic_address(self.api, *code_id, if self.one_address_per_code { 0 } else { self.st.contracts.len() as u64 }),
                    Some(s) => match salted_address(self.api, &code.checksum, sender, s.as_slice()) {
                        Some(a) => a,
                        None => return Err(Why::BadSalt),
                    },
                };
                if self.st.contracts.contains_key(&addr) {
                    return Err(Why::DuplicateAddress);
                }
                self.st.contracts.insert(
                    addr.clone(),
                    ContractM { code_id: *code_id, creator: sender.to_string(), admin: admin.clone(), label: label.clone(), created: self.block.0, storage: BTreeMap::new() },
                );
                if !funds.is_empty() {
                    let c = to_coins(funds);
                    if !self.st.bank.send(sender, &addr, &c) {
                        return Err(self.bank_debit_why(sender, &c));
                    }
                }
                let r = self.run_entry(Entry::Instantiate, &addr, Some(sender.to_string()), funds.clone(), script, None, depth, out)?;
                out.created.push(addr.clone());
                out.data_cases.push(if r.data.is_some() { "instantiate-with-data" } else { "instantiate-no-data" });
                Ok(Resp { events: r.events, data: Some(wrap_instantiate(&addr, r.data)) })
            }
            Msg::Migrate { addr, code_id, script } => {
                let addr = &match self.norm_noted(addr, out) {
                    Some(a) => a,
                    None => return Err(Why::InvalidAddress),
                };
                if !self.codes.contains_key(code_id) {
                    return Err(Why::NoSuchCode);
                }
                match self.st.contracts.get_mut(addr) {
                    None => return Err(Why::UnknownContract),
                    Some(c) => {
                        if c.admin.as_deref() != Some(sender) {
                            return Err(Why::NotAdmin);
                        }
                        c.code_id = *code_id;
                    }
                }
                let r = self.run_entry(Entry::Migrate, addr, None, vec![], script, None, depth, out)?;
                out.data_cases.push(if r.data.is_some() { "migrate-data-wrapped" } else { "migrate-no-data" });
                Ok(Resp { events: r.events, data: wrap_exec(r.data) })
            }
            Msg::UpdateAdmin { addr, admin } => {
                let _ = (self.norm_noted(addr, out), self.norm_noted(admin, out));
                self.set_admin(sender, addr, Some(admin.clone()))
            }
            // whatever else may be wrong with it, the contract cannot read the payload: no effect
            Msg::Garbled { .. } => Err(Why::ContractError),
            Msg::ClearAdmin { addr } => {
                let _ = self.norm_noted(addr, out);
                self.set_admin(sender, addr, None)
            }
            Msg::Opaque(_) => panic!("harness: opaque messages are not modelled"),
        }
    }

    fn set_admin(&mut self, sender: &str, addr: &str, new_admin: Option<String>) -> Result<Resp, Why> {
        let addr = &match self.api.norm(addr) {
            Some(a) => a,
            None => return Err(Why::InvalidAddress),
        };
        let new_admin = match new_admin {
            None => None,
            Some(a) => match self.api.norm(&a) {
                Some(a) => Some(a),
                None => return Err(Why::InvalidAddress),
            },
        };
        match self.st.contracts.get_mut(addr) {
            None => Err(Why::UnknownContract),
            Some(c) => {
                if c.admin.as_deref() != Some(sender) {
                    return Err(Why::NotAdmin);
                }
                c.admin = new_admin;
                Ok(Resp { events: vec![], data: None })
            }
        }
    }

    #[allow(clippy::too_many_arguments)]
    pub fn run_entry(
        &mut self,
        kind: Entry,
        contract: &str,
        sender: Option<String>,
        funds: Vec<Coin>,
        script: &Script,
        reply: Option<(u64, Vec<u8>, ReplySeen)>,
        depth: usize,
        out: &mut Out,
    ) -> Result<Resp, Why> {
        let (code_id, code) = match self.st.contracts.get(contract) {
            None => return Err(Why::UnknownContract),
            Some(c) => match self.codes.get(&c.code_id) {
                Some(code) => (c.code_id, code.clone()),
                None => return Err(Why::NoSuchCode),
            },
        };
        let supported = match kind {
            Entry::Reply => code.entry_points.0,
            Entry::Sudo => code.entry_points.1,
            Entry::Migrate => code.entry_points.2,
            _ => true,
        };
        if !supported {
            return Err(Why::NoEntryPoint);
        }
        // the contract observes the state at entry
        let me = &self.st.contracts[contract];
        let ev = TraceEv {
            entry: kind.clone(),
            code_tag: code.code_tag,
            tag: script.tag,
            contract: contract.to_string(),
            block: self.block.clone(),
            sender,
            funds,
            balance: self.st.bank.all(contract).into_iter().map(|(d, a)| cosmwasm_std::coin(a, d)).collect(),
            storage: me.storage.iter().map(|(k, v)| (k.clone(), v.clone())).collect(),
            probes: script.probes.iter().map(|p| { let r = self.probe(contract, p); (r.clone(), r) }).collect(),
            reply,
            storage_desc: (me.storage.iter().rev().map(|(k, v)| (k.clone(), v.clone())).collect(), vec![]),
        };
        out.trace.push(ev);
        {
            let me = self.st.contracts.get_mut(contract).unwrap();
            for (k, v) in &script.writes {
                match v {
                    Some(v) => {
                        me.storage.insert(k.to_vec(), v.to_vec());
                    }
                    None => {
                        me.storage.remove(k.as_slice());
                    }
                }
            }
            out.trace.last_mut().unwrap().storage_desc.1 = me.storage.iter().rev().map(|(k, v)| (k.clone(), v.clone())).collect();
        }
        if script.fail {
            return Err(Why::ContractError);
        }
        out.attr_strings += (script.attrs.len() + script.events.iter().map(|e| 1 + e.attrs.len()).sum::<usize>()) as u64;
        if !script_response_ok(script) {
            return Err(Why::BadAttribute);
        }
        // events of this call
        let mut entry_event = Event::new(match kind {
            Entry::Instantiate => "instantiate",
            Entry::Execute => "execute",
            Entry::Reply => "reply",
            Entry::Sudo => "sudo",
            Entry::Migrate => "migrate",
        })
        .add_attribute("_contract_address", contract.to_string());
        match kind {
            Entry::Instantiate | Entry::Migrate => entry_event = entry_event.add_attribute("code_id", code_id.to_string()),
            Entry::Reply => {
                let mode = match ev_reply_ok(out.trace.last().unwrap()) {
                    true => "handle_success",
                    false => "handle_failure",
                };
                entry_event = entry_event.add_attribute("mode", mode);
            }
            _ => {}
        }
        let mut events = vec![entry_event];
        if !script.attrs.is_empty() {
            let mut e = Event::new("wasm").add_attribute("_contract_address", contract.to_string());
            for (k, v) in &script.attrs {
                e.attributes.push(mock_wasmd_attr(k.clone(), v.clone()));
            }
            events.push(e);
        }
        for ce in &script.events {
            let mut e = Event::new(format!("wasm-{}", ce.ty)).add_attribute("_contract_address", contract.to_string());
            for (k, v) in &ce.attrs {
                e.attributes.push(mock_wasmd_attr(k.clone(), v.clone()));
            }
            events.push(e);
        }
        let mut data: Option<Vec<u8>> = script.data.as_ref().map(|d| d.to_vec());

        for sub in &script.msgs {
            let snap = self.st.clone();
            let payload = payload_bytes(&sub.payload).to_vec();
            let r = self.dispatch(contract, &sub.msg, code.lifted, depth + 1, out);
            match r {
                Ok(r) => {
                    if sub.mode.on_ok() {
                        let seen = ReplySeen::Ok { events: r.events.clone(), data: r.data.clone().map(Binary::from) };
                        let rs = model_reply_script(&sub.payload, sub.id, true);
                        let rr = self.run_entry(Entry::Reply, contract, None, vec![], &rs, Some((sub.id, payload, seen)), depth, out);
                        out.submsgs.push((sub.mode, true, true, Some(rr.is_ok()), depth));
                        let rr = rr?;
                        events.extend(r.events);
                        events.extend(rr.events);
                        if rr.data.is_some() {
                            data = rr.data;
                            out.data_cases.push("data-overridden-by-reply");
                        } else {
                            out.data_cases.push("reply-without-data-keeps-previous");
                        }
                    } else {
                        out.submsgs.push((sub.mode, true, false, None, depth));
                        events.extend(r.events);
                        if r.data.is_some() {
                            out.data_cases.push("submsg-data-dropped-without-reply");
                        }
                    }
                }
                Err(why) => {
                    // everything the sub-message did is discarded
                    let lost = count_diff(&snap, &self.st);
                    out.rolled_back_writes += lost;
                    self.st = snap;
                    if sub.mode.on_err() {
                        out.failures.push((why, depth + 1, true));
                        let rs = model_reply_script(&sub.payload, sub.id, false);
                        let rr = self.run_entry(Entry::Reply, contract, None, vec![], &rs, Some((sub.id, payload, ReplySeen::Err)), depth, out);
                        out.submsgs.push((sub.mode, false, true, Some(rr.is_ok()), depth));
                        let rr = rr?;
                        events.extend(rr.events);
                        if rr.data.is_some() {
                            data = rr.data;
                            out.data_cases.push("data-overridden-by-error-reply");
                        }
                    } else {
                        out.submsgs.push((sub.mode, false, false, None, depth));
                        out.failures.push((why.clone(), depth + 1, false));
                        return Err(why);
                    }
                }
            }
        }
        Ok(Resp { events, data })
    }
}

fn ev_reply_ok(ev: &TraceEv) -> bool {
    matches!(ev.reply, Some((_, _, ReplySeen::Ok { .. })))
}

fn count_diff(a: &State, b: &State) -> u64 {
    let mut n = 0;
    for (addr, c) in &b.contracts {
        match a.contracts.get(addr) {
            None => n += 1 + c.storage.len() as u64,
            Some(old) => {
                for (k, v) in &c.storage {
                    if old.storage.get(k) != Some(v) {
                        n += 1;
                    }
                }
                for k in old.storage.keys() {
                    if !c.storage.contains_key(k) {
                        n += 1;
                    }
                }
                if old.admin != c.admin || old.code_id != c.code_id {
                    n += 1;
                }
            }
        }
    }
    if a.bank != b.bank {
        n += 1;
    }
    n
}

/// Mirrors the puppet's payload convention: a plan selects the script; any other payload gets the default reply.
pub fn model_reply_script(p: &Payload, id: u64, ok: bool) -> Script {
    match p {
        Payload::Plan(plan) => {
            if ok {
                plan.on_ok.clone()
            } else {
                plan.on_err.clone()
            }
        }
        Payload::Raw(_) => Script { tag: 0xFFFF_0000 | (id as u32 & 0xFFFF), ..Default::default() },
    }
}

// --- the chain's custom module (defined by the harness; the model knows its contract) ----------

pub fn custom_exec_answer(sender: &str, tag: u32) -> Resp {
    Resp {
        // a module names its events as it likes (the rules for contract responses do not apply to it): the type rotates
        // over names that mean something elsewhere — wasmd's generic `message`, `wasm`, `transfer`, a one-letter type,
        // a padded one — and every one of them surfaces as the module emitted it, in replies and in the final response
        events: vec![Event::new(["custom", "message", "wasm", "transfer", "m", " spaced ", "reply"][tag as usize % 7]).add_attribute("tag", tag.to_string()).add_attribute("sender", sender.to_string())],
        data: Some(format!("custom-{}", tag).into_bytes()),
    }
}

pub fn custom_query_answer(n: u64) -> String {
    format!("\"answer-{}\"", n.wrapping_mul(2))
}
