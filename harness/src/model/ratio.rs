//! Exact rationals on `num-bigint` (the reference arithmetic of the staking model).

use num_bigint::BigInt;
use num_integer::Integer;
use num_traits::{One, Signed, Zero};
use std::cmp::Ordering;
use std::ops::{Add, Mul, Sub};

#[derive(Clone, Debug)]
pub struct Q {
    n: BigInt,
    d: BigInt, // > 0
}

impl Q {
    pub fn new(n: BigInt, d: BigInt) -> Q {
        assert!(!d.is_zero());
        let (mut n, mut d) = if d.is_negative() { (-n, -d) } else { (n, d) };
        let g = n.gcd(&d);
        if !g.is_one() && !g.is_zero() {
            n /= &g;
            d /= &g;
        }
        Q { n, d }
    }
    pub fn int(v: u128) -> Q {
        Q { n: BigInt::from(v), d: BigInt::one() }
    }
    pub fn zero() -> Q {
        Q::int(0)
    }
    pub fn ratio(n: u128, d: u128) -> Q {
        Q::new(BigInt::from(n), BigInt::from(d))
    }
    /// Parses a cosmwasm `Decimal` string ("12.345").
    pub fn from_decimal_str(s: &str) -> Option<Q> {
        let (ip, fp) = match s.split_once('.') {
            Some((a, b)) => (a, b),
            None => (s, ""),
        };
        let digits = format!("{}{}", ip, fp);
        let n: BigInt = digits.parse().ok()?;
        let d = num_traits::pow(BigInt::from(10u32), fp.len());
        Some(Q::new(n, d))
    }
    pub fn floor_u128(&self) -> u128 {
        let f = self.n.div_floor(&self.d);
        if f.is_negative() {
            0
        } else {
            u128::try_from(f).unwrap_or(u128::MAX)
        }
    }
    pub fn is_zero(&self) -> bool {
        self.n.is_zero()
    }
    pub fn is_integer(&self) -> bool {
        self.d.is_one()
    }
    pub fn abs_diff(&self, o: &Q) -> Q {
        let x = self.clone() - o.clone();
        if x.n.is_negative() {
            Q { n: -x.n, d: x.d }
        } else {
            x
        }
    }
    /// Distance to the nearest integer.
    pub fn dist_to_integer(&self) -> Q {
        let fl = Q::new(self.n.div_floor(&self.d), BigInt::one());
        let a = self.clone() - fl.clone();
        let b = (fl + Q::int(1)) - self.clone();
        if a < b {
            a
        } else {
            b
        }
    }
    pub fn to_f64(&self) -> f64 {
        // for display only
        let scaled = (&self.n * BigInt::from(1_000_000_000u64)).div_floor(&self.d);
        let s: String = scaled.to_string();
        s.parse::<f64>().unwrap_or(f64::NAN) / 1e9
    }
}

impl PartialEq for Q {
    fn eq(&self, o: &Q) -> bool {
        self.n == o.n && self.d == o.d
    }
}
impl Eq for Q {}
impl PartialOrd for Q {
    fn partial_cmp(&self, o: &Q) -> Option<Ordering> {
        Some(self.cmp(o))
    }
}
impl Ord for Q {
    fn cmp(&self, o: &Q) -> Ordering {
        (&self.n * &o.d).cmp(&(&o.n * &self.d))
    }
}
impl Add for Q {
    type Output = Q;
    fn add(self, o: Q) -> Q {
        Q::new(&self.n * &o.d + &o.n * &self.d, &self.d * &o.d)
    }
}
impl Sub for Q {
    type Output = Q;
    fn sub(self, o: Q) -> Q {
        Q::new(&self.n * &o.d - &o.n * &self.d, &self.d * &o.d)
    }
}
impl Mul for Q {
    type Output = Q;
    fn mul(self, o: Q) -> Q {
        Q::new(&self.n * &o.n, &self.d * &o.d)
    }
}
