pub mod bank;
pub mod ratio;
pub mod chain;
