pub mod bank;
pub mod ratio;
