pub mod bank;
