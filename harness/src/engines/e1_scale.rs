//! E1 scale pass (C11): registries far larger than a generated history builds — code ids beyond 255 and 65 535,
//! instance numbers beyond 255 (thorough: beyond 65 535). Oracle: ids are consecutive, every sampled id answers with
//! its own checksum / creator / code, every instance gets the address the documented derivation gives for
//! (code id, instance number), all addresses are distinct, every instance keeps its own record and is served by its
//! own code.

use crate::core::*;
use crate::engines::e1_chain::{new_app, Disc};
use crate::model::chain::{classic_address, default_checksum, ApiKind};
use crate::puppet::*;
use cosmwasm_std::testing::MockApi;
use cosmwasm_std::{Binary, CodeInfoResponse, Order, QueryRequest, WasmQuery};
use cw_multi_test::Executor;
use std::collections::BTreeSet;

pub fn registry_scale_pass(rep: &mut Report, n_codes: u64, n_instances: u64, seed: u64, stop: &dyn Fn() -> bool) -> Vec<Disc> {
    let mut d = vec![];
    let mut app = new_app();
    let user = app.api().addr_make("scale-user");
    let creator = MockApi::default().addr_make("creator").to_string();
    for want in 1..=n_codes {
        let id = app.store_code(Box::new(Puppet { code_tag: want as u32, checksum: None }));
        if id != want {
            d.push(Disc { props: vec!["C11"], sig: "code-ids-not-consecutive-in-a-large-registry".into(), detail: format!("the {}th stored code got id {}", want, id) });
            return d;
        }
    }
    rep.add("e1/scale/codes_stored", n_codes);
    // ids around the byte and two-byte boundaries, the last one, and a few seeded ones
    let mut sample: BTreeSet<u64> = [1u64, 2, 127, 128, 255, 256, 257, 511, 512, 65_535, 65_536, 65_537, n_codes].iter().copied().filter(|i| *i >= 1 && *i <= n_codes).collect();
    for k in 0..6 {
        sample.insert(1 + (seed.wrapping_mul(0x9E37_79B9_7F4A_7C15).wrapping_add(k * 7919)) % n_codes);
    }
    let mut instance_no = 0u64;
    let mut seen: BTreeSet<String> = BTreeSet::new();
    let script = |tag: u32, n: u64| Script { tag, writes: vec![(Binary::from(b"who".to_vec()), Some(Binary::from(n.to_be_bytes().to_vec())))], ..Default::default() };
    let mut instances: Vec<(String, u64, u64)> = vec![];
    let mut order: Vec<u64> = sample.iter().copied().collect();
    // then many instances of one code (instance numbers beyond a byte)
    order.extend(std::iter::repeat(2.min(n_codes)).take(n_instances as usize));
    for id in order {
        // (the keeper counts the registered contracts for every instantiation: the cost grows with the square)
        if instance_no > 300 && instance_no % 64 == 0 && stop() {
            rep.bump("e1/scale/stopped_by_deadline");
            break;
        }
        if sample.contains(&id) && instances.iter().all(|(_, c, _)| *c != id) {
            let info: Result<CodeInfoResponse, _> = app.wrap().query(&QueryRequest::Wasm(WasmQuery::CodeInfo { code_id: id }));
            rep.bump("e1/scale/code_infos_compared");
            match info {
                Ok(i) if i.code_id == id && i.creator.as_str() == creator && i.checksum.as_slice() == default_checksum(id).as_slice() => {}
                other => d.push(Disc { props: vec!["C11"], sig: "code-info-differs-in-a-large-registry".into(), detail: format!("code {}: {:?}", id, other.map(|i| (i.code_id, i.creator.to_string(), i.checksum.to_hex()))) }),
            }
        }
        let _ = take_trace();
        let got = app.instantiate_contract(id, user.clone(), &script(id as u32, instance_no), &[], format!("scale{}", instance_no), None);
        let want = classic_address(ApiKind::Std, id, instance_no);
        rep.bump("e1/scale/instantiations");
        match got {
            Ok(a) => {
                if a.as_str() != want {
                    d.push(Disc { props: vec!["C11"], sig: "address-differs-from-derivation-in-a-large-registry".into(), detail: format!("code {} instance #{}: {} vs derived {}", id, instance_no, a, want) });
                }
                if !seen.insert(a.to_string()) {
                    d.push(Disc { props: vec!["C11"], sig: "address-handed-out-twice-in-a-large-registry".into(), detail: format!("code {} instance #{}: {}", id, instance_no, a) });
                }
                let tr = take_trace();
                if tr.len() != 1 || tr[0].code_tag != id as u32 || tr[0].contract != a.as_str() {
                    d.push(Disc { props: vec!["C11"], sig: "instantiation-served-by-another-code-in-a-large-registry".into(), detail: format!("code {} instance #{}: trace {:?}", id, instance_no, tr.iter().map(|t| (t.code_tag, t.contract.clone())).collect::<Vec<_>>()) });
                }
                instances.push((a.to_string(), id, instance_no));
            }
            Err(e) => d.push(Disc { props: vec!["C11"], sig: "instantiation-fails-in-a-large-registry".into(), detail: format!("code {} instance #{}: {}", id, instance_no, e.to_string().chars().take(200).collect::<String>()) }),
        }
        instance_no += 1;
        if d.len() > 3 {
            return d;
        }
    }
    // afterwards: every instance is still registered under its code, keeps its own record and is served by its code
    let step = if instances.len() > 2000 { instances.len() / 1000 } else { 1 };
    for (i, (addr, id, n)) in instances.iter().enumerate() {
        if i % step != 0 && i + 300 < instances.len() && i > 300 {
            continue;
        }
        rep.bump("e1/scale/instances_revisited");
        let a = cosmwasm_std::Addr::unchecked(addr.clone());
        match app.contract_data(&a) {
            Ok(cd) if cd.code_id == *id && cd.label == format!("scale{}", n) => {}
            other => d.push(Disc { props: vec!["C11"], sig: "contract-data-differs-in-a-large-registry".into(), detail: format!("{} (code {}, instance #{}): {:?}", addr, id, n, other.map(|c| (c.code_id, c.label))) }),
        }
        let stored: Vec<(Vec<u8>, Vec<u8>)> = app.contract_storage(&a).range(None, None, Order::Ascending).collect();
        if stored != vec![(b"who".to_vec(), n.to_be_bytes().to_vec())] {
            d.push(Disc { props: vec!["C11", "C08"], sig: "instance-record-differs-in-a-large-registry".into(), detail: format!("{} (instance #{}): {:?}", addr, n, stored) });
        }
        let got: Result<(u32, Vec<(Binary, Binary)>), _> = app.wrap().query_wasm_smart(addr.clone(), &PuppetQuery::Dump {});
        match got {
            Ok((tag, _)) if tag == *id as u32 => {}
            other => d.push(Disc { props: vec!["C11"], sig: "instance-served-by-another-code-in-a-large-registry".into(), detail: format!("{} (code {}): {:?}", addr, id, other.map(|x| x.0)) }),
        }
        if d.len() > 3 {
            break;
        }
    }
    d
}
