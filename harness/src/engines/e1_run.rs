//! E1 history runner: setup, random transactions, failure sweeps, coverage accounting.

use crate::core::*;
use crate::engines::e1_chain::*;
use crate::engines::e1_gen::*;
use crate::model::chain::*;
use crate::puppet::*;
use crate::rng::Rng;
use cosmwasm_std::{coin, Binary};

pub fn setup_ops(users: &[String], rng: &mut Rng) -> Vec<Top> {
    let mut ops = vec![];
    for u in users {
        ops.push(Top::Mint { to: u.clone(), coins: DENOMS.iter().map(|d| coin(10_000, *d)).collect() });
    }
    ops.push(Top::StoreCode { kind: CodeKind::Puppet { code_tag: 1, checksum: None }, creator: None, id: None });
    ops.push(Top::StoreCode { kind: CodeKind::Puppet { code_tag: 2, checksum: Some(hex(&[0xAB; 32])) }, creator: Some(users[1].clone()), id: None });
    ops.push(Top::StoreCode { kind: CodeKind::Lifted, creator: None, id: None });
    // a non-contiguous identifier and a duplicate
    let far = 10 + rng.below(50);
    ops.push(Top::StoreCode { kind: CodeKind::Puppet { code_tag: 3, checksum: None }, creator: None, id: Some(far) });
    ops.push(Top::DuplicateCode { id: 1 });
    ops.push(Top::DuplicateCode { id: far });
    let init = |tag: u32| Box::new(Script { tag, writes: vec![(Binary::from(b"init".to_vec()), Some(Binary::from(format!("i{}", tag).into_bytes())))], ..Default::default() });
    let mk = |code_id: u64, tag: u32, admin: Option<String>, funds: Vec<cosmwasm_std::Coin>, sender: &str, salt: Option<Binary>| Top::Exec {
        sender: sender.to_string(),
        msg: Msg::Inst { code_id, script: init(tag), funds, label: format!("setup{}", tag), admin, salt },
        via: ExecVia::Execute,
    };
    ops.push(mk(1, 9001, Some(users[0].clone()), vec![coin(500, "ua")], &users[0], None));
    ops.push(mk(1, 9002, None, vec![], &users[1], None));
    ops.push(mk(2, 9003, Some(users[1].clone()), vec![coin(300, "ub")], &users[0], Some(Binary::from(vec![9u8]))));
    ops.push(mk(3, 9004, Some(users[0].clone()), vec![coin(200, "ua"), coin(200, "uc")], &users[2], None));
    ops.push(mk(far, 9005, Some(users[2].clone()), vec![], &users[0], None));
    ops.push(mk(far + 1, 9006, Some(users[0].clone()), vec![], &users[0], None));
    ops
}

pub struct HistoryOpts {
    pub profile: Profile,
    pub len: usize,
    pub sweep: bool,
    pub matrix: bool,
}

/// Everything observable of a finished history (C19): per-step records + final raw storage.
pub fn finish_transcript(w: &mut World) -> Option<Vec<String>> {
    let mut t = w.transcript.take()?;
    let raw = crate::rawstate::dump(w.app.storage());
    t.push(format!("final-storage {}", raw.iter().map(|(k, v)| format!("{}={}", hex(k), hex(v))).collect::<Vec<_>>().join(",")));
    Some(t)
}

/// Per-transaction coverage derived from what the model observed.
pub fn account(info: &StepInfo, op: &Top, rep: &mut Report, prop: &str) {
    let out = &info.out;
    for (mode, child_ok, replied, reply_ok, depth) in &out.submsgs {
        rep.bump(&format!(
            "e1/submsg/{:?}/child-{}/{}/depth{}",
            mode,
            if *child_ok { "ok" } else { "failed" },
            match (replied, reply_ok) {
                (false, _) => "no-reply",
                (true, Some(true)) => "reply-ok",
                _ => "reply-failed",
            },
            (*depth).min(4)
        ));
        rep.bump(if *replied { "e1/reply/expected-and-seen" } else { "e1/reply/forbidden-and-absent" });
    }
    for (w, depth, caught) in &out.failures {
        rep.bump(&format!("e1/failure/{:?}/{}", w, if *caught { "caught" } else if *depth == 0 { "top-level" } else { "propagated" }));
    }
    for c in &out.data_cases {
        rep.bump(&format!("e1/data/{}", c));
    }
    rep.add("e1/rolled_back_changes_checked", out.rolled_back_writes);
    rep.add("e1/attr_and_event_strings", out.attr_strings);
    rep.bump(&format!("e1/tree_depth/{}", out.max_depth.min(7)));
    for t in &out.trace {
        rep.bump(&format!("e1/entry/{:?}", t.entry));
        if !t.funds.is_empty() {
            rep.bump("e1/entries_with_funds");
        }
    }
    // structural fingerprint + property-specific non-triviality
    let shape = format!(
        "{}|{:?}|{:?}|{:?}|{:?}",
        info.kind,
        out.submsgs,
        out.failures,
        out.data_cases,
        out.trace.iter().map(|t| (t.entry.clone() as u8, t.code_tag, t.funds.len(), t.probes.len(), t.storage.len())).collect::<Vec<_>>()
    );
    let child_failed = out.submsgs.iter().any(|s| !s.1);
    let nontrivial = match prop {
        "C01" => (!info.model_ok && out.rolled_back_writes > 0) || matches!(op, Top::Multi { msgs, .. } if msgs.len() >= 2 && info.model_ok),
        "C02" => child_failed && out.rolled_back_writes > 0,
        "C03" => !out.submsgs.is_empty(),
        "C04" => !out.data_cases.is_empty() && out.trace.len() >= 2,
        "C05" => out.trace.len() >= 2 && (out.trace.iter().any(|t| !t.funds.is_empty()) || out.max_depth >= 2),
        "C08" => out.trace.iter().map(|t| &t.contract).collect::<std::collections::BTreeSet<_>>().len() >= 2,
        "C10" => out.trace.iter().map(|t| t.probes.len()).sum::<usize>() > 0,
        "C11" => !out.created.is_empty() || out.failures.iter().any(|f| matches!(f.0, Why::DuplicateAddress | Why::EmptyLabel | Why::NoSuchCode | Why::BadSalt)),
        "C12" => out.trace.iter().any(|t| t.entry == Entry::Migrate) || out.failures.iter().any(|f| f.0 == Why::NotAdmin) || has_admin_op(op),
        "C13" => out.attr_strings >= 2,
        _ => true,
    };
    if nontrivial {
        rep.fingerprints.insert(fp_str(&shape));
    }
}

fn has_admin_op(op: &Top) -> bool {
    fn in_msg(m: &Msg) -> bool {
        match m {
            Msg::Migrate { .. } | Msg::UpdateAdmin { .. } | Msg::ClearAdmin { .. } => true,
            Msg::Exec { script, .. } | Msg::Inst { script, .. } => in_script(script),
            _ => false,
        }
    }
    fn in_script(s: &Script) -> bool {
        s.msgs.iter().any(|sub| in_msg(&sub.msg) || matches!(&sub.payload, Payload::Plan(p) if in_script(&p.on_ok) || in_script(&p.on_err)))
    }
    match op {
        Top::Exec { msg, .. } => in_msg(msg),
        Top::Multi { msgs, .. } => msgs.iter().any(in_msg),
        Top::Sudo { script, .. } => in_script(script),
        _ => false,
    }
}

/// Generates and runs one history. Returns the executed program and the discrepancies of the first failing step.
pub fn run_history(rng: &mut Rng, opts: &HistoryOpts, rep: &mut Report, prop: &str) -> (Case, Vec<Disc>) {
    let (c, d, _) = run_history_t(rng, opts, rep, prop, false);
    (c, d)
}

pub fn run_history_t(rng: &mut Rng, opts: &HistoryOpts, rep: &mut Report, prop: &str, record: bool) -> (Case, Vec<Disc>, Option<Vec<String>>) {
    let mut w = World::new();
    if record {
        w.transcript = Some(vec![]);
    }
    let mut ops: Vec<Top> = vec![];
    let setup = setup_ops(&w.users.clone(), rng);
    for op in setup {
        ops.push(op.clone());
        let (d, info) = w.step(&op, rep);
        if let Some(i) = &info {
            account(i, &op, rep, prop);
        }
        if !d.is_empty() {
            return (Case { ops }, d, finish_transcript(&mut w));
        }
    }
    let mut todo: Vec<Top> = vec![];
    if opts.matrix {
        let contracts: Vec<String> = w.model.st.contracts.keys().cloned().collect();
        todo.extend(reply_matrix(&w.users, &contracts, 20_000));
        todo.reverse();
    }
    let mut tag_base = 100u32;
    let mut produced = 0usize;
    loop {
        let op = if let Some(op) = todo.pop() {
            op
        } else if produced < opts.len {
            produced += 1;
            tag_base += 1000;
            let users = w.users.clone();
            let mut g = Gen::new(rng, opts.profile.clone(), users, tag_base);
            let op = g.top(&w.model);
            // failure sweep: the same tree with node k failing uncaught, for every k
            if opts.sweep {
                if let Top::Exec { sender, msg, via } = &op {
                    let n = count_scripts(msg);
                    for k in (0..n).rev() {
                        let mut m2 = msg.clone();
                        let mut kk = k;
                        if fail_at(&mut m2, &mut kk) {
                            todo.push(Top::Exec { sender: sender.clone(), msg: m2, via: via.clone() });
                            rep.bump("e1/sweep/failure_points");
                        }
                    }
                }
            }
            op
        } else {
            break;
        };
        ops.push(op.clone());
        let (d, info) = w.step(&op, rep);
        if let Some(i) = &info {
            account(i, &op, rep, prop);
        }
        if !d.is_empty() {
            return (Case { ops }, d, finish_transcript(&mut w));
        }
    }
    // final quiescent-point checks
    let (d, _) = w.step(&Top::QueryBattery, rep);
    ops.push(Top::QueryBattery);
    let t = finish_transcript(&mut w);
    (Case { ops }, d, t)
}

pub fn run_case(case: &Case, rep: &mut Report, prop: &str) -> Vec<Disc> {
    run_case_t(case, rep, prop, false).0
}

pub fn run_case_t(case: &Case, rep: &mut Report, prop: &str, record: bool) -> (Vec<Disc>, Option<Vec<String>>) {
    let mut w = World::new();
    if record {
        w.transcript = Some(vec![]);
    }
    for op in &case.ops {
        let (d, info) = w.step(op, rep);
        if let Some(i) = &info {
            account(i, op, rep, prop);
        }
        if !d.is_empty() {
            return (d, finish_transcript(&mut w));
        }
    }
    let t = finish_transcript(&mut w);
    (vec![], t)
}
