//! E1 history runner: setup, random transactions, failure sweeps, coverage accounting.

use crate::core::*;
use crate::engines::e1_chain::*;
use crate::engines::e1_gen::*;
use crate::model::chain::*;
use crate::puppet::*;
use crate::rng::Rng;
use cosmwasm_std::{coin, Binary};

pub fn setup_ops(users: &[String], rng: &mut Rng) -> Vec<Top> {
    let mut ops = vec![];
    for u in users {
        ops.push(Top::Mint { to: u.clone(), coins: DENOMS.iter().map(|d| coin(10_000, *d)).collect() });
    }
    ops.push(Top::StoreCode { kind: CodeKind::Puppet { code_tag: 1, checksum: None }, creator: None, id: None });
    ops.push(Top::StoreCode { kind: CodeKind::Puppet { code_tag: 2, checksum: Some(hex(&[0xAB; 32])) }, creator: Some(users[1].clone()), id: None });
    ops.push(Top::StoreCode { kind: CodeKind::Lifted, creator: None, id: None });
    ops.push(Top::StoreCode { kind: CodeKind::Partial { reply: rng.chance(1, 2), sudo: rng.chance(1, 2), migrate: false }, creator: None, id: None });
    // a non-contiguous identifier and a duplicate
    let far = 10 + rng.below(50);
    ops.push(Top::StoreCode { kind: CodeKind::Puppet { code_tag: 3, checksum: None }, creator: None, id: Some(far) });
    ops.push(Top::DuplicateCode { id: 1 });
    ops.push(Top::DuplicateCode { id: far });
    let init = |tag: u32| Box::new(Script { tag, writes: vec![(Binary::from(b"init".to_vec()), Some(Binary::from(format!("i{}", tag).into_bytes())))], ..Default::default() });
    let mk = |code_id: u64, tag: u32, admin: Option<String>, funds: Vec<cosmwasm_std::Coin>, sender: &str, salt: Option<Binary>| Top::Exec {
        sender: sender.to_string(),
        msg: Msg::Inst { code_id, script: init(tag), funds, label: format!("setup{}", tag), admin, salt },
        via: ExecVia::Execute,
    };
    ops.push(mk(1, 9001, Some(users[0].clone()), vec![coin(500, "ua")], &users[0], None));
    ops.push(mk(1, 9002, None, vec![], &users[1], None));
    ops.push(mk(2, 9003, Some(users[1].clone()), vec![coin(300, "ub")], &users[0], Some(Binary::from(vec![9u8]))));
    ops.push(mk(3, 9004, Some(users[0].clone()), vec![coin(200, "ua"), coin(200, "uc")], &users[2], None));
    ops.push(mk(far, 9005, Some(users[2].clone()), vec![], &users[0], None));
    ops.push(mk(far + 1, 9006, Some(users[0].clone()), vec![], &users[0], None));
    ops.push(mk(4, 9007, Some(users[0].clone()), vec![coin(100, "ua")], &users[0], None));
    // an account whose balance of one denomination is all but the 128-bit maximum (nothing else uses that denomination)
    ops.push(Top::Mint { to: users[2].clone(), coins: vec![coin(u128::MAX - 20, "uz")] });
    ops.push(Top::Mint { to: users[0].clone(), coins: vec![coin(1000, "uz")] });
    ops
}

pub struct HistoryOpts {
    pub profile: Profile,
    pub len: usize,
    pub sweep: bool,
    pub matrix: bool,
    pub api: ApiKind,
    pub prestored: bool,
    pub one_address_per_code: bool,
}

/// Everything observable of a finished history (C19): per-step records + final raw storage.
pub fn finish_transcript(w: &mut World) -> Option<Vec<String>> {
    let mut t = w.transcript.take()?;
    let raw = crate::rawstate::dump(w.app.storage());
    t.push(format!("final-storage {}", raw.iter().map(|(k, v)| format!("{}={}", hex(k), hex(v))).collect::<Vec<_>>().join(",")));
    Some(t)
}

/// Per-transaction coverage derived from what the model observed.
pub fn account(info: &StepInfo, op: &Top, rep: &mut Report, prop: &str) {
    let out = &info.out;
    for (mode, child_ok, replied, reply_ok, depth) in &out.submsgs {
        rep.bump(&format!(
            "e1/submsg/{:?}/child-{}/{}/depth{}",
            mode,
            if *child_ok { "ok" } else { "failed" },
            match (replied, reply_ok) {
                (false, _) => "no-reply",
                (true, Some(true)) => "reply-ok",
                _ => "reply-failed",
            },
            (*depth).min(4)
        ));
        rep.bump(if *replied { "e1/reply/expected-and-seen" } else { "e1/reply/forbidden-and-absent" });
    }
    for (w, depth, caught) in &out.failures {
        rep.bump(&format!("e1/failure/{:?}/{}", w, if *caught { "caught" } else if *depth == 0 { "top-level" } else { "propagated" }));
    }
    for c in &out.data_cases {
        rep.bump(&format!("e1/data/{}", c));
    }
    for n in &out.notes {
        rep.bump(&format!("e1/addr/{}", n));
    }
    rep.add("e1/rolled_back_changes_checked", out.rolled_back_writes);
    rep.add("e1/attr_and_event_strings", out.attr_strings);
    rep.bump(&format!("e1/tree_depth/{}", out.max_depth.min(7)));
    for t in &out.trace {
        rep.bump(&format!("e1/entry/{:?}", t.entry));
        if !t.funds.is_empty() {
            rep.bump("e1/entries_with_funds");
        }
    }
    // structural fingerprint + property-specific non-triviality
    let shape = format!(
        "{}|{:?}|{:?}|{:?}|{:?}",
        info.kind,
        out.submsgs,
        out.failures,
        out.data_cases,
        out.trace.iter().map(|t| (t.entry.clone() as u8, t.code_tag, t.funds.len(), t.probes.len(), t.storage.len())).collect::<Vec<_>>()
    );
    let child_failed = out.submsgs.iter().any(|s| !s.1);
    let nontrivial = match prop {
        "C01" => (!info.model_ok && out.rolled_back_writes > 0) || matches!(op, Top::Multi { msgs, .. } if msgs.len() >= 2 && info.model_ok),
        "C02" => child_failed && out.rolled_back_writes > 0,
        "C03" => !out.submsgs.is_empty(),
        "C04" => !out.data_cases.is_empty() && out.trace.len() >= 2,
        "C05" => out.trace.len() >= 2 && (out.trace.iter().any(|t| !t.funds.is_empty()) || out.max_depth >= 2),
        "C08" => out.trace.iter().map(|t| &t.contract).collect::<std::collections::BTreeSet<_>>().len() >= 2,
        "C10" => out.trace.iter().map(|t| t.probes.len()).sum::<usize>() > 0,
        "C11" => !out.created.is_empty() || out.failures.iter().any(|f| matches!(f.0, Why::DuplicateAddress | Why::EmptyLabel | Why::NoSuchCode | Why::BadSalt)),
        "C12" => out.trace.iter().any(|t| t.entry == Entry::Migrate) || out.failures.iter().any(|f| f.0 == Why::NotAdmin) || has_admin_op(op),
        "C13" => out.attr_strings >= 2,
        _ => true,
    };
    if nontrivial {
        rep.fingerprints.insert(fp_str(&shape));
    }
}

fn has_admin_op(op: &Top) -> bool {
    fn in_msg(m: &Msg) -> bool {
        match m {
            Msg::Migrate { .. } | Msg::UpdateAdmin { .. } | Msg::ClearAdmin { .. } => true,
            Msg::Exec { script, .. } | Msg::Inst { script, .. } => in_script(script),
            _ => false,
        }
    }
    fn in_script(s: &Script) -> bool {
        s.msgs.iter().any(|sub| in_msg(&sub.msg) || matches!(&sub.payload, Payload::Plan(p) if in_script(&p.on_ok) || in_script(&p.on_err)))
    }
    match op {
        Top::Exec { msg, .. } => in_msg(msg),
        Top::Multi { msgs, .. } => msgs.iter().any(in_msg),
        Top::Sudo { script, .. } => in_script(script),
        _ => false,
    }
}

/// Generates and runs one history. Returns the executed program and the discrepancies of the first failing step.
pub fn run_history(rng: &mut Rng, opts: &HistoryOpts, rep: &mut Report, prop: &str) -> (Case, Vec<Disc>) {
    let (c, d, _) = run_history_t(rng, opts, rep, prop, false);
    (c, d)
}

pub fn run_history_t(rng: &mut Rng, opts: &HistoryOpts, rep: &mut Report, prop: &str, record: bool) -> (Case, Vec<Disc>, Option<Vec<String>>) {
    let mut w = World::with_setup2(opts.api, opts.prestored, opts.one_address_per_code);
    let api = opts.api;
    let one_address_per_code = opts.one_address_per_code;
    let prestored = opts.prestored && !one_address_per_code && api != ApiKind::Plain;
    if record {
        w.transcript = Some(vec![]);
    }
    let mut ops: Vec<Top> = vec![];
    let setup = setup_ops(&w.users.clone(), rng);
    for op in setup {
        ops.push(op.clone());
        let (d, info) = w.step(&op, rep);
        if let Some(i) = &info {
            account(i, &op, rep, prop);
        }
        if !d.is_empty() {
            return (Case { ops, api, prestored, one_address_per_code }, d, finish_transcript(&mut w));
        }
    }
    let mut todo: Vec<Top> = vec![];
    if opts.matrix {
        let contracts: Vec<String> = w.model.st.contracts.keys().cloned().collect();
        let admined: Vec<(String, String)> = w.model.st.contracts.iter().filter_map(|(a, c)| c.admin.clone().filter(|x| w.users.contains(x)).map(|x| (a.clone(), x))).collect();
        let full_codes: Vec<u64> = w.model.codes.iter().filter(|(_, c)| c.entry_points == (true, true, true) && !c.lifted).map(|(id, _)| *id).collect();
        if !admined.is_empty() && full_codes.len() >= 2 {
            todo.extend(admin_matrix(&w.model, &admined, &full_codes, &w.users[2], 30_000));
            rep.bump("e1/admin_matrix_histories");
        }
        todo.extend(reply_matrix(&w.users, &contracts, 20_000));
        todo.reverse();
    }
    // on the crate's own codecs: the spelling the other checksum variant gives the same bytes, and the upper-case
    // spelling, of a user and of a contract — strings that are addresses on another chain, never on this one
    if api == ApiKind::Bech32 || api == ApiKind::Bech32m {
        let other = if api == ApiKind::Bech32 { ApiKind::Bech32m } else { ApiKind::Bech32 };
        let respell = |a: &str| api.canonicalize(a).and_then(|c| other.humanize(&c));
        let mut directed = vec![];
        if let Some(u) = respell(&w.users[1]) {
            directed.push(Top::Exec { sender: w.users[0].clone(), msg: Msg::BankSend { to: u, coins: vec![cosmwasm_std::coin(1, "ua")] }, via: ExecVia::Execute });
        }
        directed.push(Top::Exec { sender: w.users[0].clone(), msg: Msg::BankSend { to: w.users[1].to_uppercase(), coins: vec![cosmwasm_std::coin(1, "ua")] }, via: ExecVia::Execute });
        if let Some(c) = w.model.st.contracts.keys().next().and_then(|c| respell(c)) {
            directed.push(Top::Exec { sender: w.users[0].clone(), msg: Msg::Exec { addr: c, script: Box::new(Script { tag: 99, ..Default::default() }), funds: vec![] }, via: ExecVia::Execute });
        }
        todo.extend(directed);
    }
    let mut tag_base = 100u32;
    let mut produced = 0usize;
    loop {
        let op = if let Some(op) = todo.pop() {
            op
        } else if produced < opts.len {
            produced += 1;
            tag_base += 1000;
            let users = w.users.clone();
            let mut g = Gen::new(rng, opts.profile.clone(), users, tag_base);
            let op = g.top(&w.model);
            // failure sweep: the same tree with node k failing uncaught, for every k
            if opts.sweep {
                if let Top::Exec { sender, msg, via } = &op {
                    let n = count_scripts(msg);
                    for k in (0..n).rev() {
                        let mut m2 = msg.clone();
                        let mut kk = k;
                        if fail_at(&mut m2, &mut kk) {
                            todo.push(Top::Exec { sender: sender.clone(), msg: m2, via: via.clone() });
                            rep.bump("e1/sweep/failure_points");
                        }
                    }
                }
            }
            op
        } else {
            break;
        };
        ops.push(op.clone());
        let (d, info) = w.step(&op, rep);
        if let Some(i) = &info {
            account(i, &op, rep, prop);
        }
        if !d.is_empty() {
            return (Case { ops, api, prestored, one_address_per_code }, d, finish_transcript(&mut w));
        }
    }
    // final quiescent-point checks
    let (d, _) = w.step(&Top::QueryBattery, rep);
    ops.push(Top::QueryBattery);
    let t = finish_transcript(&mut w);
    (Case { ops, api, prestored, one_address_per_code }, d, t)
}

pub fn run_case(case: &Case, rep: &mut Report, prop: &str) -> Vec<Disc> {
    run_case_t(case, rep, prop, false).0
}

pub fn run_case_t(case: &Case, rep: &mut Report, prop: &str, record: bool) -> (Vec<Disc>, Option<Vec<String>>) {
    let mut w = World::for_case(case);
    if record {
        w.transcript = Some(vec![]);
    }
    for op in &case.ops {
        let (d, info) = w.step(op, rep);
        if let Some(i) = &info {
            account(i, op, rep, prop);
        }
        if !d.is_empty() {
            return (d, finish_transcript(&mut w));
        }
    }
    let t = finish_transcript(&mut w);
    (vec![], t)
}

// ---------------------------------------------------------------------------------------------
// Trees containing messages outside the chain model (staking, distribution, ibc, gov): judged by
// the model-free invariants only — I1 (Err => byte-identical storage), I3 (execute_multi equals the
// same messages executed one by one on a twin instance), panic monitor, query purity.
// ---------------------------------------------------------------------------------------------

fn opaque_world() -> (World, Vec<String>) {
    use cosmwasm_std::{Decimal, Validator};
    let mut w = World::new();
    let block = w.app.block_info();
    w.app.init_modules(|router, api, storage| {
        router.staking.setup(storage, cw_multi_test::StakingInfo { bonded_denom: "TOKEN".into(), unbonding_time: 60, apr: Decimal::percent(10) }).unwrap();
        for (i, c) in [5u64, 20].iter().enumerate() {
            router.staking.add_validator(api, storage, &block, Validator::create(format!("validator{}", i), Decimal::percent(*c), Decimal::percent(100), Decimal::percent(1))).unwrap();
        }
    });
    let mut scratch = Report::new();
    let users = w.users.clone();
    let mut ops = vec![];
    for u in &users {
        ops.push(Top::Mint { to: u.clone(), coins: vec![coin(10_000, "ua"), coin(10_000, "TOKEN")] });
    }
    ops.push(Top::StoreCode { kind: CodeKind::Puppet { code_tag: 1, checksum: None }, creator: None, id: None });
    ops.push(Top::StoreCode { kind: CodeKind::Lifted, creator: None, id: None });
    for (i, code) in [1u64, 1, 2].iter().enumerate() {
        ops.push(Top::Exec {
            sender: users[i % 3].clone(),
            msg: Msg::Inst { code_id: *code, script: Box::new(Script { tag: 9100 + i as u32, ..Default::default() }), funds: vec![coin(500, "TOKEN"), coin(100, "ua")], label: format!("o{}", i), admin: Some(users[0].clone()), salt: None },
            via: ExecVia::Execute,
        });
    }
    for op in &ops {
        let _ = w.step(op, &mut scratch);
    }
    let contracts = w.model.st.contracts.keys().cloned().collect();
    (w, contracts)
}

fn exec_real(w: &mut World, op: &Top) -> Result<Result<Vec<cw_multi_test::AppResponse>, String>, String> {
    use cosmwasm_std::Addr;
    use cw_multi_test::Executor;
    catch(|| match op {
        Top::Exec { sender, msg, .. } => w.app.execute(Addr::unchecked(sender.clone()), to_cosmos::<PMsg>(msg)).map(|r| vec![r]).map_err(|e| format!("{:#}", e)),
        Top::Multi { sender, msgs } => w.app.execute_multi(Addr::unchecked(sender.clone()), msgs.iter().map(to_cosmos::<PMsg>).collect()).map_err(|e| format!("{:#}", e)),
        Top::Sudo { addr, script, helper } => {
            if *helper {
                w.app.wasm_sudo(Addr::unchecked(addr.clone()), script).map(|r| vec![r]).map_err(|e| format!("{:#}", e))
            } else {
                w.app
                    .sudo(cw_multi_test::SudoMsg::Wasm(cw_multi_test::WasmSudo { contract_addr: Addr::unchecked(addr.clone()), message: cosmwasm_std::to_json_binary(script).unwrap() }))
                    .map(|r| vec![r])
                    .map_err(|e| format!("{:#}", e))
            }
        }
        _ => Ok(vec![]),
    })
}

/// One generated history of opaque trees.
pub fn run_opaque_history(rng: &mut Rng, len: usize, rep: &mut Report) -> (Case, Vec<Disc>) {
    let mut profile = Profile::base();
    profile.opaque_pct = 35;
    profile.fail_pct = 10;
    profile.max_nodes = 14;
    let mut tagbase = 700_000u32;
    let mut left = len;
    run_opaque(
        &mut |a: &World| {
            if left == 0 {
                return None;
            }
            left -= 1;
            tagbase += 1000;
            let users = a.users.clone();
            let mut g = Gen::new(rng, profile.clone(), users, tagbase);
            let mut op = g.top(&a.model);
            // time passes between transactions so that unbondings mature and rewards accrue
            if matches!(op, Top::SetBlock { .. } | Top::StoreCode { .. } | Top::DuplicateCode { .. } | Top::QueryBattery | Top::Mint { .. }) {
                op = Top::SetBlock { height: 0, time_nanos: g.rng.range(1, 100) * 1_000_000_000, chain_id: String::new(), next: false };
            }
            Some(op)
        },
        rep,
    )
}

pub fn replay_opaque(case: &Case, rep: &mut Report) -> Vec<Disc> {
    let mut it = case.ops.iter();
    run_opaque(&mut |_a: &World| it.next().cloned(), rep).1
}

/// Runs opaque trees on two instances (A: as given; B: multi-message calls executed one by one).
fn run_opaque(next_op: &mut dyn FnMut(&World) -> Option<Top>, rep: &mut Report) -> (Case, Vec<Disc>) {
    let (mut a, _) = opaque_world();
    let (mut b, _) = opaque_world();
    let mut ops: Vec<Top> = vec![];
    let mut discs: Vec<Disc> = vec![];
    while let Some(op) = next_op(&a) {
        ops.push(op.clone());
        if let Top::SetBlock { time_nanos, .. } = &op {
            let dt = *time_nanos;
            for w in [&mut a, &mut b] {
                if let Err(p) = catch(|| w.app.update_block(|bl| { bl.time = bl.time.plus_nanos(dt); bl.height += 1; })) {
                    discs.push(Disc { props: vec!["C14", "C01"], sig: "block-update-panics".into(), detail: p });
                    return (Case { ops, api: ApiKind::Std, prestored: false, one_address_per_code: false }, discs);
                }
            }
            rep.bump("e1/opaque/block_updates");
            continue;
        }
        rep.evaluations += 1;
        let before = crate::rawstate::dump(a.app.storage());
        let _ = take_trace();
        let ra = exec_real(&mut a, &op);
        let trace = take_trace();
        let ra = match ra {
            Ok(r) => r,
            Err(p) => {
                discs.push(Disc { props: vec!["C01", "C14", "C17"], sig: "panic-in-transaction-with-module-messages".into(), detail: format!("{}: {}", short_op(&op), p) });
                return (Case { ops, api: ApiKind::Std, prestored: false, one_address_per_code: false }, discs);
            }
        };
        rep.bump(&format!("e1/opaque/tx/{}", if ra.is_ok() { "ok" } else { "err" }));
        for t in &trace {
            for (x, y) in &t.probes {
                rep.bump("e1/opaque/probes_issued_twice");
                if x != y {
                    discs.push(Disc { props: vec!["C10"], sig: "same-query-twice-differs".into(), detail: format!("{} then {}", x, y) });
                }
            }
        }
        let after = crate::rawstate::dump(a.app.storage());
        if ra.is_err() {
            rep.bump("e1/opaque/err_state_unchanged_checks");
            if after != before {
                discs.push(Disc { props: vec!["C01"], sig: "failed-transaction-with-module-messages-left-state-changes".into(), detail: format!("{}: {:?}", short_op(&op), crate::rawstate::diff(&before, &after)) });
                if let Some(detail) = crate::engines::e1_chain::app_queries_vs_committed(&a.app, &before, rep) {
                    discs.push(Disc { props: vec!["C10"], sig: "app-query-observes-effects-of-failed-transaction-with-module-messages".into(), detail: format!("{}: {}", short_op(&op), detail) });
                }
                return (Case { ops, api: ApiKind::Std, prestored: false, one_address_per_code: false }, discs);
            }
        } else if after != before {
            rep.fingerprints.insert(fp_str(&format!("{:?}", trace.iter().map(|t| (t.entry.clone() as u8, t.tag % 1000)).collect::<Vec<_>>())));
        }
        // twin B: the same messages one by one
        let rb: Result<Vec<cw_multi_test::AppResponse>, usize> = match &op {
            Top::Multi { sender, msgs } if msgs.len() > 1 => {
                let mut out = vec![];
                let mut failed = None;
                for (i, m) in msgs.iter().enumerate() {
                    match exec_real(&mut b, &Top::Exec { sender: sender.clone(), msg: m.clone(), via: ExecVia::Execute }) {
                        Ok(Ok(mut r)) => out.append(&mut r),
                        _ => {
                            failed = Some(i);
                            break;
                        }
                    }
                }
                match failed {
                    None => Ok(out),
                    Some(i) => Err(i),
                }
            }
            _ => match exec_real(&mut b, &op) {
                Ok(Ok(r)) => Ok(r),
                _ => Err(0),
            },
        };
        let _ = take_trace();
        match (&ra, &rb) {
            (Ok(x), Ok(y)) => {
                rep.bump("e1/opaque/multi_equals_sequence_checks");
                let same = x.len() == y.len() && x.iter().zip(y.iter()).all(|(p, q)| p.events == q.events && p.data == q.data);
                let sa = crate::rawstate::dump(a.app.storage());
                let sb = crate::rawstate::dump(b.app.storage());
                if !same || sa != sb {
                    discs.push(Disc { props: vec!["C01"], sig: "execute-multi-differs-from-the-same-messages-in-sequence".into(), detail: format!("{}: responses equal: {}, storage diff {:?}", short_op(&op), same, crate::rawstate::diff(&sa, &sb).iter().take(4).collect::<Vec<_>>()) });
                    return (Case { ops, api: ApiKind::Std, prestored: false, one_address_per_code: false }, discs);
                }
            }
            (Err(_), Err(0)) => {}
            (Err(_), Err(_)) => {
                // a later message failed: A rolled everything back, the one-by-one twin kept the earlier ones — out of step, stop here
                rep.bump("e1/opaque/histories_ended_by_partial_sequence");
                return (Case { ops, api: ApiKind::Std, prestored: false, one_address_per_code: false }, discs);
            }
            (Ok(_), Err(i)) => {
                discs.push(Disc { props: vec!["C01"], sig: "execute-multi-succeeded-although-a-message-fails-alone".into(), detail: format!("{}: message #{} fails when executed in sequence", short_op(&op), i) });
                return (Case { ops, api: ApiKind::Std, prestored: false, one_address_per_code: false }, discs);
            }
            (Err(e), Ok(_)) => {
                discs.push(Disc { props: vec!["C01"], sig: "execute-multi-failed-although-every-message-succeeds-in-sequence".into(), detail: format!("{}: {}", short_op(&op), first_line(e)) });
                return (Case { ops, api: ApiKind::Std, prestored: false, one_address_per_code: false }, discs);
            }
        }
        if !discs.is_empty() {
            return (Case { ops, api: ApiKind::Std, prestored: false, one_address_per_code: false }, discs);
        }
    }
    // purity at the end
    let mut answers = vec![];
    discs.extend(a.query_battery(rep, &mut answers));
    (Case { ops, api: ApiKind::Std, prestored: false, one_address_per_code: false }, discs)
}
