pub mod e2_overlay;
pub mod e2_views;
pub mod e3_bank;
pub mod e6_codec;
pub mod e4_staking;
pub mod e1_chain;
pub mod e1_gen;
pub mod e1_run;
