pub mod e2_overlay;
pub mod e2_views;
