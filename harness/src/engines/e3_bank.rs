//! E3 — bank engine (C09): random ledger histories against a `BTreeMap` ledger model, with the
//! three query kinds and an independent scan of the raw `bank` namespace after every operation.

use crate::core::*;
use crate::model::bank::{Coins, Ledger};
use crate::rawstate;
use crate::rng::Rng;
use cosmwasm_std::{
    coin, to_json_binary, Addr, AllBalanceResponse, Api, BalanceResponse, BankMsg, BankQuery, Binary, Coin, Deps, DepsMut, Empty, Env,
    MessageInfo, QueryRequest, Response, StdResult, SupplyResponse, WasmMsg,
};
use crate::engines::e1_chain::{FlexApi, PlainNames};
use crate::model::chain::ApiKind;
use cosmwasm_std::testing::MockStorage;
use cw_multi_test::{
    App, AppBuilder, BankKeeper, BankSudo, ContractWrapper, DistributionKeeper, Executor, FailingModule, GovFailingModule, IbcFailingModule, IntoAddr, StakeKeeper, StargateFailing, SudoMsg, WasmKeeper,
};

/// The default application type, but with a selectable address codec.
pub type BApp = App<BankKeeper, FlexApi, MockStorage, FailingModule<Empty, Empty, Empty>, WasmKeeper<Empty, Empty>, StakeKeeper, DistributionKeeper, IbcFailingModule, GovFailingModule, StargateFailing>;
use serde::{Deserialize, Serialize};
use serde_json::json;

#[derive(Clone, Debug, Serialize, Deserialize)]
pub enum Via {
    Execute,
    SendTokens,
    /// the bank keeper driven directly through `App::init_modules` (no transaction around it): a rejected
    /// operation must still change nothing
    Keeper,
}

#[derive(Clone, Debug, Serialize, Deserialize)]
pub enum RelayMsg {
    Send { to: String, #[serde(with = "crate::model::bank::coins_serde")] coins: Coins },
    Burn { #[serde(with = "crate::model::bank::coins_serde")] coins: Coins },
}

#[derive(Clone, Debug, Serialize, Deserialize)]
pub enum BOp {
    Send { from: String, to: String, #[serde(with = "crate::model::bank::coins_serde")] coins: Coins, via: Via },
    Burn { from: String, #[serde(with = "crate::model::bank::coins_serde")] coins: Coins },
    Mint { to: String, #[serde(with = "crate::model::bank::coins_serde")] coins: Coins },
    /// user calls the relay contract with `funds`; the contract emits `msgs` as bank messages
    Relay { user: String, #[serde(with = "crate::model::bank::coins_serde")] funds: Coins, msgs: Vec<RelayMsg> },
}

#[derive(Clone, Debug, Serialize, Deserialize)]
pub struct Case {
    pub ops: Vec<BOp>,
    /// the chain uses plain case-sensitive strings as addresses (accounts that differ in letter case only)
    #[serde(default)]
    pub plain: bool,
    /// sparse observation (see World::sparse)
    #[serde(default)]
    pub sparse: bool,
}

// --- relay contract -------------------------------------------------------------------------

#[derive(Clone, Debug, Serialize, Deserialize)]
pub struct RelayExec {
    pub msgs: Vec<BankMsg>,
}

fn relay_instantiate(_d: DepsMut, _e: Env, _i: MessageInfo, _m: Empty) -> StdResult<Response> {
    Ok(Response::new())
}
fn relay_execute(_d: DepsMut, _e: Env, _i: MessageInfo, m: RelayExec) -> StdResult<Response> {
    Ok(Response::new().add_messages(m.msgs))
}
fn relay_query(_d: Deps, _e: Env, _m: Empty) -> StdResult<Binary> {
    to_json_binary(&Empty {})
}

pub struct World {
    pub app: BApp,
    pub users: Vec<String>,
    pub relay: String,
    pub model: Ledger,
    /// (kind, coin class, accepted) per executed operation
    pub log: Vec<(String, String, bool)>,
    /// sparse observation: after an operation only the accounts it names are queried (and only every seventh
    /// operation everything), so that what a query answers right after a write is not preceded by a sweep of reads
    pub sparse: bool,
}

pub const DENOMS: [&str; 3] = ["ua", "ub", "uc"];
/// rarely used denominations: an unrelated one and near misses of "ua" (other letter case, a prefix, an extension)
/// ... and denominations with characters that need escaping wherever a record is written as text
pub const RARE_DENOMS: [&str; 9] = ["ux", "UA", "Ua", "u", "uab", "factory\\alice\\gold", "q\"uoted", "tab\there", "dénom"];

impl World {
    pub fn new() -> World {
        World::new_with(false)
    }

    pub fn for_case(case: &Case) -> World {
        let mut w = World::new_with(case.plain);
        w.sparse = case.sparse;
        w
    }

    /// `plain`: addresses are plain case-sensitive strings; the accounts are Alice, alice, ALICE, alic, "alice " and
    /// the relay contract is Vault (the accounts list has a vault as well).
    pub fn new_with(plain: bool) -> World {
        let mut app: BApp = if plain {
            AppBuilder::new().with_api(FlexApi::of(ApiKind::Plain)).with_wasm(WasmKeeper::new().with_address_generator(PlainNames)).build(|_, _, _| {})
        } else {
            AppBuilder::new().with_api(FlexApi::of(ApiKind::Std)).build(|_, _, _| {})
        };
        let users: Vec<String> = if plain { ["Alice", "alice", "ALICE", "alic", "alice ", "vault"].iter().map(|s| s.to_string()).collect() } else { (0..5).map(|i| format!("user{}", i).into_addr().to_string()).collect() };
        let code = app.store_code(Box::new(ContractWrapper::new(relay_execute, relay_instantiate, relay_query)));
        let relay = app
            .instantiate_contract(code, Addr::unchecked(users[0].clone()), &Empty {}, &[], "relay", None)
            .expect("instantiate relay")
            .to_string();
        World { app, users, relay, model: Ledger::default(), log: vec![], sparse: false }
    }
}

fn to_coins(c: &Coins) -> Vec<Coin> {
    c.iter().map(|(d, a)| coin(*a, d.clone())).collect()
}

fn class_of(coins: &Coins) -> &'static str {
    let zeros = coins.iter().any(|(_, a)| *a == 0);
    let mut ds: Vec<&String> = coins.iter().map(|(d, _)| d).collect();
    let n = ds.len();
    ds.sort();
    ds.dedup();
    let dups = ds.len() < n;
    match (coins.is_empty(), zeros, dups) {
        (true, _, _) => "empty",
        (_, true, true) => "zeros+dups",
        (_, true, false) => "zeros",
        (_, false, true) => "dups",
        _ => "plain",
    }
}

pub struct Outcome {
    pub failed: Option<(String, String)>,
}

/// Applies one operation to the real App and to the model and compares everything observable.
pub fn apply(w: &mut World, op: &BOp, rep: &mut Report) -> Option<(String, String)> {
    let before = rawstate::dump(w.app.storage());
    let mut m = w.model.clone();
    let (kind, expect_ok, result): (&str, bool, Result<Result<(), String>, String>) = match op {
        BOp::Send { from, to, coins, via } => {
            let ok = m.send(from, to, coins);
            let r = catch(|| match via {
                Via::Execute => w
                    .app
                    .execute(Addr::unchecked(from.clone()), BankMsg::Send { to_address: to.clone(), amount: to_coins(coins) }.into())
                    .map(|_| ())
                    .map_err(|e| e.to_string()),
                Via::SendTokens => w
                    .app
                    .send_tokens(Addr::unchecked(from.clone()), Addr::unchecked(to.clone()), &to_coins(coins))
                    .map(|_| ())
                    .map_err(|e| e.to_string()),
                Via::Keeper => {
                    let block = w.app.block_info();
                    let msg = BankMsg::Send { to_address: to.clone(), amount: to_coins(coins) };
                    let sender = Addr::unchecked(from.clone());
                    rep.bump("c09/send/through_the_keeper_without_a_transaction");
                    w.app.init_modules(|router, api, storage| {
                        use cw_multi_test::Module;
                        router.bank.execute(api, storage, router, &block, sender, msg).map(|_| ()).map_err(|e| e.to_string())
                    })
                }
            });
            rep.bump(&format!("c09/send/{}/{}{}", class_of(coins), if ok { "valid" } else { "invalid" }, if from == to { "/self" } else { "" }));
            ("send", ok, r)
        }
        BOp::Burn { from, coins } => {
            let ok = m.burn(from, coins);
            let r = catch(|| {
                w.app
                    .execute(Addr::unchecked(from.clone()), BankMsg::Burn { amount: to_coins(coins) }.into())
                    .map(|_| ())
                    .map_err(|e| e.to_string())
            });
            rep.bump(&format!("c09/burn/{}/{}", class_of(coins), if ok { "valid" } else { "invalid" }));
            ("burn", ok, r)
        }
        BOp::Mint { to, coins } => {
            let addr_ok = w.app.api().addr_validate(to).map(|a| a.as_str() == to).unwrap_or(false);
            let ok = addr_ok && m.mint(to, coins);
            let r = catch(|| {
                w.app
                    .sudo(SudoMsg::Bank(BankSudo::Mint { to_address: to.clone(), amount: to_coins(coins) }))
                    .map(|_| ())
                    .map_err(|e| e.to_string())
            });
            rep.bump(&format!("c09/mint/{}/{}", class_of(coins), if ok { "valid" } else if addr_ok { "invalid" } else { "invalid-address" }));
            ("mint", ok, r)
        }
        BOp::Relay { user, funds, msgs } => {
            let mut ok = funds.is_empty() || m.send(user, &w.relay, funds);
            if ok {
                for rm in msgs {
                    let step = match rm {
                        RelayMsg::Send { to, coins } => m.send(&w.relay, to, coins),
                        RelayMsg::Burn { coins } => m.burn(&w.relay, coins),
                    };
                    if !step {
                        ok = false;
                        break;
                    }
                }
            }
            let bank_msgs: Vec<BankMsg> = msgs
                .iter()
                .map(|rm| match rm {
                    RelayMsg::Send { to, coins } => BankMsg::Send { to_address: to.clone(), amount: to_coins(coins) },
                    RelayMsg::Burn { coins } => BankMsg::Burn { amount: to_coins(coins) },
                })
                .collect();
            let relay = w.relay.clone();
            let r = catch(|| {
                w.app
                    .execute(
                        Addr::unchecked(user.clone()),
                        WasmMsg::Execute { contract_addr: relay, msg: to_json_binary(&RelayExec { msgs: bank_msgs }).unwrap(), funds: to_coins(funds) }.into(),
                    )
                    .map(|_| ())
                    .map_err(|e| e.to_string())
            });
            rep.bump(&format!("c09/relay/{}msgs/{}", msgs.len().min(3), if ok { "valid" } else { "invalid" }));
            ("relay", ok, r)
        }
    };
    rep.evaluations += 1;
    let result = match result {
        Ok(r) => r,
        Err(p) => {
            return Some((format!("bank-{}-panics", kind), format!("{:?} panicked: {}", op, p)));
        }
    };
    if result.is_ok() != expect_ok {
        return Some((
            format!("bank-{}-{}", kind, if expect_ok { "rejected-valid" } else { "accepted-invalid" }),
            format!("{:?}: model says {}, simulator returned {:?}", op, if expect_ok { "valid" } else { "invalid" }, result),
        ));
    }
    let cls = match op {
        BOp::Send { coins, .. } | BOp::Burn { coins, .. } | BOp::Mint { coins, .. } => class_of(coins).to_string(),
        BOp::Relay { msgs, .. } => format!("{}msgs", msgs.len()),
    };
    w.log.push((kind.to_string(), cls, expect_ok));
    if expect_ok {
        w.model = m;
    } else {
        // I1: a failed operation changes nothing
        let after = rawstate::dump(w.app.storage());
        rep.bump("c09/failed_op_state_unchanged_checks");
        if after != before {
            return Some((format!("bank-failed-{}-changed-state", kind), format!("{:?} failed but raw storage changed: {:?}", op, rawstate::diff(&before, &after))));
        }
    }
    if w.sparse && w.log.len() % 7 != 0 {
        let focus: Vec<String> = match op {
            BOp::Send { from, to, .. } => vec![to.clone(), from.clone()],
            BOp::Burn { from, .. } => vec![from.clone()],
            BOp::Mint { to, .. } => vec![to.clone()],
            BOp::Relay { user, .. } => vec![w.relay.clone(), user.clone()],
        };
        rep.bump("c09/sparse_observations");
        return observe_some(w, rep, Some(&focus));
    }
    observe(w, rep)
}

/// Compares the raw ledger and the three query kinds with the model.
pub fn observe(w: &World, rep: &mut Report) -> Option<(String, String)> {
    observe_some(w, rep, None)
}

/// `focus`: query only these accounts (the raw ledger is always compared as a whole: reading it runs no bank code).
pub fn observe_some(w: &World, rep: &mut Report, focus: Option<&[String]>) -> Option<(String, String)> {
    let raw = rawstate::dump(w.app.storage());
    let ledger = match rawstate::bank_ledger(&raw) {
        Ok(l) => l,
        Err(e) => return Some(("bank-raw-ledger-malformed".into(), e)),
    };
    // raw ledger == model (on non-zero balances): nothing else changed, conservation
    let mut addrs: Vec<String> = ledger.keys().cloned().chain(w.model.accounts.keys().cloned()).collect();
    addrs.sort();
    addrs.dedup();
    let mut denoms = w.model.denoms();
    for d in DENOMS.iter().chain(RARE_DENOMS.iter()) {
        if !denoms.contains(&d.to_string()) {
            denoms.push(d.to_string());
        }
    }
    for a in &addrs {
        let real: Vec<(String, u128)> = ledger.get(a).map(|m| m.iter().filter(|(_, v)| **v > 0).map(|(k, v)| (k.clone(), *v)).collect()).unwrap_or_default();
        rep.bump("c09/raw_balance_compared");
        if real != w.model.all(a) {
            return Some(("bank-raw-balance-differs".into(), format!("account {}: raw ledger {:?}, model {:?}", a, real, w.model.all(a))));
        }
    }
    for d in &denoms {
        let raw_sum: u128 = ledger.values().map(|m| m.get(d).copied().unwrap_or(0)).sum();
        rep.bump("c09/conservation_checks");
        if raw_sum != w.model.supply(d) {
            return Some(("bank-conservation-broken".into(), format!("denom {}: sum of raw balances {}, model supply {}", d, raw_sum, w.model.supply(d))));
        }
        if focus.is_some() {
            continue;
        }
        let s: Result<SupplyResponse, _> = w.app.wrap().query(&QueryRequest::Bank(BankQuery::Supply { denom: d.clone() }));
        match s {
            Ok(s) => {
                rep.bump("c09/supply_query_compared");
                if s.amount.denom != *d || s.amount.amount.u128() != w.model.supply(d) {
                    return Some(("bank-supply-query-differs".into(), format!("denom {}: Supply says {}, model {}", d, s.amount, w.model.supply(d))));
                }
            }
            Err(e) => return Some(("bank-supply-query-failed".into(), e.to_string())),
        }
    }
    let querier = w.app.wrap();
    let addrs: Vec<String> = match focus {
        Some(f) => f.to_vec(),
        None => addrs,
    };
    for a in &addrs {
        if w.app.api().addr_validate(a).map(|x| x.as_str() == a).unwrap_or(false) {
            #[allow(deprecated)]
            let all: Result<AllBalanceResponse, _> = querier.query(&QueryRequest::Bank(BankQuery::AllBalances { address: a.clone() }));
            match all {
                Ok(all) => {
                    let got: Vec<(String, u128)> = all.amount.iter().map(|c| (c.denom.clone(), c.amount.u128())).collect();
                    rep.bump("c09/all_balances_compared");
                    if got != w.model.all(a) {
                        return Some(("bank-all-balances-differs".into(), format!("account {}: AllBalances {:?}, model {:?}", a, got, w.model.all(a))));
                    }
                }
                Err(e) => return Some(("bank-all-balances-query-failed".into(), e.to_string())),
            }
            for d in &denoms {
                let b: Result<BalanceResponse, _> = querier.query(&QueryRequest::Bank(BankQuery::Balance { address: a.clone(), denom: d.clone() }));
                match b {
                    Ok(b) => {
                        rep.bump("c09/balance_compared");
                        if b.amount.denom != *d || b.amount.amount.u128() != w.model.bal(a, d) {
                            return Some(("bank-balance-query-differs".into(), format!("account {} denom {}: Balance {}, model {}", a, d, b.amount, w.model.bal(a, d))));
                        }
                    }
                    Err(e) => return Some(("bank-balance-query-failed".into(), e.to_string())),
                }
            }
        } else {
            rep.bump("c09/non_address_accounts_checked_raw_only");
        }
    }
    None
}

// --- generator --------------------------------------------------------------------------------

fn gen_amount(rng: &mut Rng, bal: u128) -> u128 {
    match rng.below(12) {
        0 => 0,
        1 => 1,
        2 => bal,
        3 => bal + 1,
        4 => bal.saturating_sub(1),
        5 => bal / 2,
        6 => bal / 2 + 1,
        7..=8 => rng.range_u128(1, 1_000_000_000_000),
        _ => {
            if bal > 0 {
                rng.range_u128(1, bal)
            } else {
                rng.range_u128(1, 1000)
            }
        }
    }
}

fn gen_coins(rng: &mut Rng, model: &Ledger, from: Option<&str>) -> Coins {
    let n = match rng.below(10) {
        0 => 0,
        1..=5 => 1,
        6..=7 => 2,
        8 => 3,
        _ => 4,
    };
    let mut out: Coins = vec![];
    for _ in 0..n {
        let d = if rng.chance(1, 25) { rng.pick(&RARE_DENOMS).to_string() } else if !out.is_empty() && rng.chance(1, 3) { out[rng.usize_below(out.len())].0.clone() } else { rng.pick(&DENOMS).to_string() };
        let bal = from.map(|f| model.bal(f, &d)).unwrap_or(1000);
        // when the denomination repeats, aim at the cumulative boundary
        let already: u128 = out.iter().filter(|(x, _)| *x == d).map(|(_, a)| *a).sum();
        let a = if already > 0 && rng.chance(1, 2) {
            match rng.below(3) {
                0 => bal.saturating_sub(already),
                1 => bal.saturating_sub(already) + 1,
                _ => gen_amount(rng, bal),
            }
        } else {
            gen_amount(rng, bal)
        };
        out.push((d, a));
    }
    out
}

fn gen_party(rng: &mut Rng, w: &World, allow_weird: bool) -> String {
    match rng.below(if allow_weird { 14 } else { 10 }) {
        0..=7 => rng.pick(&w.users).clone(),
        8..=9 => w.relay.clone(),
        10 => format!("fresh{}", rng.below(1000)).into_addr().to_string(),
        11 => "not an address".to_string(),
        12 => rng.pick(&w.users).to_uppercase(),
        _ => "staking_module".to_string(),
    }
}

pub fn gen_op(rng: &mut Rng, w: &World) -> BOp {
    match rng.below(20) {
        0..=7 => {
            let from = gen_party(rng, w, false);
            let to = if rng.chance(1, 8) { from.clone() } else { gen_party(rng, w, true) };
            let coins = gen_coins(rng, &w.model, Some(&from));
            BOp::Send { from, to, coins, via: match rng.below(6) { 0 | 1 => Via::SendTokens, 2 => Via::Keeper, _ => Via::Execute } }
        }
        8..=10 => {
            let from = gen_party(rng, w, false);
            let coins = gen_coins(rng, &w.model, Some(&from));
            BOp::Burn { from, coins }
        }
        11..=14 => {
            let to = gen_party(rng, w, true);
            let coins = gen_coins(rng, &w.model, None);
            BOp::Mint { to, coins }
        }
        _ => {
            let user = rng.pick(&w.users).clone();
            let funds = if rng.chance(1, 2) { gen_coins(rng, &w.model, Some(&user)) } else { vec![] };
            let n = rng.range(0, 3) as usize;
            // contract balance after receiving the funds, for boundary amounts
            let mut m = w.model.clone();
            if !funds.is_empty() {
                m.send(&user, &w.relay, &funds);
            }
            let mut msgs = vec![];
            for _ in 0..n {
                if rng.chance(3, 4) {
                    let to = if rng.chance(1, 6) { w.relay.clone() } else { gen_party(rng, w, true) };
                    let coins = gen_coins(rng, &m, Some(&w.relay));
                    m.send(&w.relay, &to, &coins);
                    msgs.push(RelayMsg::Send { to, coins });
                } else {
                    let coins = gen_coins(rng, &m, Some(&w.relay));
                    m.burn(&w.relay, &coins);
                    msgs.push(RelayMsg::Burn { coins });
                }
            }
            BOp::Relay { user, funds, msgs }
        }
    }
}

/// Generates and runs one history; returns the executed case and the first failure, if any.
pub fn run_random(rng: &mut Rng, len: usize, rep: &mut Report) -> (Case, Option<(String, String)>) {
    let plain = rng.chance(1, 8);
    if plain {
        rep.bump("c09/histories_with_plain_case_sensitive_addresses");
    }
    let mut w = World::new_with(plain);
    w.sparse = rng.chance(1, 2);
    let mut ops = vec![];
    // start with some money around
    for u in w.users.clone().iter().take(4) {
        let mut coins: Coins = DENOMS.iter().map(|d| (d.to_string(), rng.range_u128(0, 5000))).collect();
        if rng.chance(1, 3) {
            coins.push((rng.pick(&RARE_DENOMS).to_string(), rng.range_u128(1, 500)));
        }
        ops.push(BOp::Mint { to: u.clone(), coins });
    }
    // now and then a crowd of funded accounts (totals are computed over all accounts, however many there are)
    if rng.chance(1, 5) {
        let n = *rng.pick(&[29u64, 30, 31, 59, 60, 61, 95]);
        for i in 0..n {
            let coins: Coins = vec![(rng.pick(&DENOMS).to_string(), rng.range_u128(1, 50))];
            ops.push(BOp::Mint { to: format!("crowd{}", i).into_addr().to_string(), coins });
        }
        rep.bump("c09/histories_with_a_crowd_of_accounts");
    }
    // now and then an account holding half of the 128-bit range in each of two denominations and a quarter in a
    // third: every balance and supply stays within range, the amounts of one message added up across denominations
    // do not; it sends all of it in one message first
    if rng.chance(1, 10) {
        let whale = w.users[3].clone();
        ops.push(BOp::Mint { to: whale.clone(), coins: vec![("wa".to_string(), 1u128 << 127), ("wb".to_string(), 1u128 << 127), ("wc".to_string(), 1u128 << 126)] });
        ops.push(BOp::Send { from: whale.clone(), to: w.users[2].clone(), coins: vec![("wa".to_string(), 1u128 << 127), ("wb".to_string(), 1u128 << 127)], via: if rng.chance(1, 2) { Via::Execute } else { Via::Keeper } });
        ops.push(BOp::Burn { from: w.users[2].clone(), coins: vec![("wa".to_string(), (1u128 << 127) - 5), ("wb".to_string(), (1u128 << 127) - 7)] });
        rep.bump("c09/histories_with_amounts_adding_up_beyond_128_bits_across_denominations");
    }
    // now and then an account holding more than a hundred denominations
    if rng.chance(1, 30) {
        let n = *rng.pick(&[99u64, 100, 101, 130]);
        let to = w.users[1].clone();
        let coins: Coins = (0..n).map(|i| (format!("d{:03}", i), rng.range_u128(1, 9))).collect();
        ops.push(BOp::Mint { to, coins });
        rep.bump("c09/histories_with_over_a_hundred_denominations");
    }
    for op in ops.clone() {
        if let Some(f) = apply(&mut w, &op, rep) {
            return (Case { ops, plain, sparse: w.sparse }, Some(f));
        }
    }
    for _ in 0..len {
        let op = gen_op(rng, &w);
        ops.push(op.clone());
        if let Some(f) = apply(&mut w, &op, rep) {
            return (Case { ops, plain, sparse: w.sparse }, Some(f));
        }
    }
    let accepted = w.log.iter().filter(|l| l.2).count();
    if accepted >= 3 && accepted < w.log.len() {
        // non-trivial: both accepted and rejected operations occurred
        rep.fingerprints.insert(fp_str(&format!("{:?}", w.log)));
    }
    (Case { ops, plain, sparse: w.sparse }, None)
}

pub fn run_case(case: &Case, rep: &mut Report) -> Option<(String, String)> {
    let mut w = World::for_case(case);
    for op in &case.ops {
        if let Some(f) = apply(&mut w, op, rep) {
            return Some(f);
        }
    }
    None
}

/// Constructive cases for every (kind x validity class) bucket named in the design.
pub fn templates() -> Vec<Case> {
    let mut all = templates_for(false);
    all.extend(templates_for(true));
    all
}

fn templates_for(plain: bool) -> Vec<Case> {
    let w = World::new_with(plain);
    let (a, b, r) = (w.users[0].clone(), w.users[1].clone(), w.relay.clone());
    let c = |v: &[(&str, u128)]| -> Coins { v.iter().map(|(d, x)| (d.to_string(), *x)).collect() };
    vec![
        Case {
            ops: vec![
                BOp::Mint { to: a.clone(), coins: c(&[("ua", 100), ("ub", 50)]) },
                BOp::Send { from: a.clone(), to: a.clone(), coins: c(&[("ua", 101)]), via: Via::Execute }, // self-transfer beyond balance
                BOp::Send { from: a.clone(), to: a.clone(), coins: c(&[("ua", 100)]), via: Via::Execute },
                BOp::Send { from: a.clone(), to: b.clone(), coins: c(&[("ua", 60), ("ua", 41)]), via: Via::Execute }, // cumulative overdraft
                BOp::Send { from: a.clone(), to: b.clone(), coins: c(&[("ua", 60), ("ua", 40)]), via: Via::SendTokens },
                BOp::Send { from: a.clone(), to: b.clone(), coins: c(&[("ub", 0)]), via: Via::Execute },
                BOp::Send { from: a.clone(), to: b.clone(), coins: c(&[]), via: Via::Execute },
                BOp::Send { from: a.clone(), to: b.clone(), coins: c(&[("ub", 0), ("ub", 50)]), via: Via::Execute },
                BOp::Burn { from: b.clone(), coins: c(&[("ua", 100), ("ub", 51)]) },
                BOp::Burn { from: b.clone(), coins: c(&[("ua", 100), ("ub", 50)]) },
                BOp::Mint { to: "not an address".into(), coins: c(&[("ua", 5)]) },
                BOp::Mint { to: b.clone(), coins: c(&[("ua", 0)]) },
                BOp::Mint { to: b.clone(), coins: c(&[("uc", 7), ("uc", 8), ("ua", 0)]) },
                BOp::Send { from: b.clone(), to: "staking_module".into(), coins: c(&[("uc", 15)]), via: Via::Execute },
                BOp::Send { from: b.clone(), to: "staking_module".into(), coins: c(&[("uc", 1)]), via: Via::Execute },
            ],
            plain,
            sparse: false,
        },
        Case {
            ops: vec![
                BOp::Mint { to: a.clone(), coins: c(&[("ua", 100)]) },
                BOp::Relay { user: a.clone(), funds: c(&[("ua", 30)]), msgs: vec![RelayMsg::Send { to: b.clone(), coins: c(&[("ua", 10)]) }, RelayMsg::Burn { coins: c(&[("ua", 20)]) }] },
                BOp::Relay { user: a.clone(), funds: c(&[("ua", 30)]), msgs: vec![RelayMsg::Send { to: b.clone(), coins: c(&[("ua", 10)]) }, RelayMsg::Burn { coins: c(&[("ua", 21)]) }] },
                BOp::Relay { user: a.clone(), funds: c(&[("ua", 71)]), msgs: vec![] },
                BOp::Relay { user: a.clone(), funds: c(&[("ua", 0)]), msgs: vec![] },
                BOp::Relay { user: a.clone(), funds: c(&[("ua", 70)]), msgs: vec![RelayMsg::Send { to: r.clone(), coins: c(&[("ua", 71)]) }] },
                BOp::Relay { user: a.clone(), funds: c(&[("ua", 70)]), msgs: vec![RelayMsg::Send { to: r.clone(), coins: c(&[("ua", 70)]) }, RelayMsg::Send { to: a.clone(), coins: c(&[("ua", 70)]) }] },
            ],
            plain,
            sparse: false,
        },
    ]
}

pub fn case_json(c: &Case) -> serde_json::Value {
    json!(c)
}
