//! E5 — routing engine (C17): recording modules plugged into `AppBuilder`, all appending to one
//! shared log; the expectation for every message / query is a direct function of
//! (kind, origin, configuration).

use crate::core::*;
use crate::puppet::*;
use crate::rawstate;
use cosmwasm_std::testing::{MockApi, MockStorage};
use cosmwasm_std::{
    coin, to_json_binary, to_json_vec, Addr, AnyMsg, Api, BankMsg, BankQuery, Binary, BlockInfo, CosmosMsg, CustomMsg, CustomQuery, DistributionMsg, Empty,
    GovMsg, GrpcQuery, IbcMsg, IbcQuery, Querier, QueryRequest, StakingMsg, StakingQuery, Storage, VoteOption,
};
use cw_multi_test::error::AnyResult;
use cw_multi_test::{
    AcceptingModule, App, AppBuilder, AppResponse, Bank, BankKeeper, BankSudo, CosmosRouter, Distribution, Executor, FailingModule, Gov, GovAcceptingModule,
    GovFailingModule, Ibc, IbcAcceptingModule, IbcFailingModule, Module, Staking, StakingSudo, Stargate, StargateAccepting, StargateFailing, SudoMsg, WasmKeeper,
};
use serde::de::DeserializeOwned;
use std::cell::RefCell;
use std::collections::BTreeMap;
use std::marker::PhantomData;
use std::rc::Rc;

#[derive(Clone, Debug, PartialEq)]
pub struct LogEntry {
    pub module: &'static str,
    pub kind: &'static str, // exec | query | sudo
    pub sender: Option<String>,
    pub payload: String,
}

#[derive(Clone, Default)]
pub struct Hub {
    pub log: Rc<RefCell<Vec<LogEntry>>>,
    pub failing: Rc<RefCell<BTreeMap<&'static str, bool>>>,
    pub counter: Rc<RefCell<u64>>,
    /// what accepting modules answer with: bit 0 = no data, bit 1 = no events
    pub shape: Rc<RefCell<u8>>,
}

impl Hub {
    /// bit 0 = no data, bit 1 = no events, bits 2-3 = how the event type is spelled (a module may call its events
    /// whatever it likes: the rules for contract responses do not apply to it)
    fn answer(&self, events: Vec<cosmwasm_std::Event>, data: &[u8]) -> AppResponse {
        let shape = *self.shape.borrow();
        let ty = Self::event_type(shape);
        let events: Vec<cosmwasm_std::Event> = events.into_iter().map(|e| cosmwasm_std::Event::new(ty).add_attributes(e.attributes)).collect();
        AppResponse { events: if shape & 2 == 0 { events } else { vec![] }, data: if shape & 1 == 0 { Some(Binary::from(data.to_vec())) } else { None } }
    }
    pub fn event_type(shape: u8) -> &'static str {
        ["rec", "message", " ", "_wasm-x"][(shape >> 2 & 3) as usize]
    }
    fn fails(&self, m: &'static str) -> bool {
        self.failing.borrow().get(m).copied().unwrap_or(false)
    }
    fn record(&self, module: &'static str, kind: &'static str, sender: Option<String>, payload: String) -> u64 {
        self.log.borrow_mut().push(LogEntry { module, kind, sender, payload });
        let mut c = self.counter.borrow_mut();
        *c += 1;
        *c
    }
}

fn marker_key(module: &str, n: u64) -> Vec<u8> {
    format!("\x00\x03rec{}/{}", module, n).into_bytes()
}

/// A recording module: logs every call out of band, leaves a marker in storage (so rollback is
/// observable), then accepts or fails according to the runtime configuration.
pub struct Rec<E, Q, S> {
    pub name: &'static str,
    pub hub: Hub,
    _p: PhantomData<(E, Q, S)>,
}

impl<E, Q, S> Rec<E, Q, S> {
    pub fn new(name: &'static str, hub: &Hub) -> Self {
        Rec { name, hub: hub.clone(), _p: PhantomData }
    }
}

impl<E: std::fmt::Debug, Q: std::fmt::Debug, S: std::fmt::Debug> Module for Rec<E, Q, S> {
    type ExecT = E;
    type QueryT = Q;
    type SudoT = S;

    fn execute<ExecC, QueryC>(&self, _api: &dyn Api, storage: &mut dyn Storage, _router: &dyn CosmosRouter<ExecC = ExecC, QueryC = QueryC>, _block: &BlockInfo, sender: Addr, msg: E) -> AnyResult<AppResponse>
    where
        ExecC: CustomMsg + DeserializeOwned + 'static,
        QueryC: CustomQuery + DeserializeOwned + 'static,
    {
        let n = self.hub.record(self.name, "exec", Some(sender.to_string()), format!("{:?}", msg));
        storage.set(&marker_key(self.name, n), b"x");
        if self.hub.fails(self.name) {
            anyhow::bail!("recording module {} is configured to fail", self.name);
        }
        Ok(self.hub.answer(vec![cosmwasm_std::Event::new("rec").add_attribute("module", self.name)], self.name.as_bytes()))
    }

    fn query(&self, _api: &dyn Api, _storage: &dyn Storage, _querier: &dyn Querier, _block: &BlockInfo, request: Q) -> AnyResult<Binary> {
        self.hub.record(self.name, "query", None, format!("{:?}", request));
        if self.hub.fails(self.name) {
            anyhow::bail!("recording module {} is configured to fail", self.name);
        }
        Ok(Binary::from(format!("\"{}-answer\"", self.name).into_bytes()))
    }

    fn sudo<ExecC, QueryC>(&self, _api: &dyn Api, storage: &mut dyn Storage, _router: &dyn CosmosRouter<ExecC = ExecC, QueryC = QueryC>, _block: &BlockInfo, msg: S) -> AnyResult<AppResponse>
    where
        ExecC: CustomMsg + DeserializeOwned + 'static,
        QueryC: CustomQuery + DeserializeOwned + 'static,
    {
        let n = self.hub.record(self.name, "sudo", None, format!("{:?}", msg));
        storage.set(&marker_key(self.name, n), b"x");
        if self.hub.fails(self.name) {
            anyhow::bail!("recording module {} is configured to fail", self.name);
        }
        Ok(AppResponse::default())
    }
}

impl Staking for Rec<StakingMsg, StakingQuery, StakingSudo> {}
impl Distribution for Rec<DistributionMsg, Empty, Empty> {}
impl Ibc for Rec<IbcMsg, IbcQuery, Empty> {}
impl Gov for Rec<GovMsg, Empty, Empty> {}

/// Recording bank: logs, then delegates to the real keeper (contracts need funds to work).
pub struct RecBank {
    pub hub: Hub,
    pub inner: BankKeeper,
}
impl Bank for RecBank {}
impl Module for RecBank {
    type ExecT = BankMsg;
    type QueryT = BankQuery;
    type SudoT = BankSudo;
    fn execute<ExecC, QueryC>(&self, api: &dyn Api, storage: &mut dyn Storage, router: &dyn CosmosRouter<ExecC = ExecC, QueryC = QueryC>, block: &BlockInfo, sender: Addr, msg: BankMsg) -> AnyResult<AppResponse>
    where
        ExecC: CustomMsg + DeserializeOwned + 'static,
        QueryC: CustomQuery + DeserializeOwned + 'static,
    {
        self.hub.record("bank", "exec", Some(sender.to_string()), format!("{:?}", msg));
        self.inner.execute(api, storage, router, block, sender, msg)
    }
    fn query(&self, api: &dyn Api, storage: &dyn Storage, querier: &dyn Querier, block: &BlockInfo, request: BankQuery) -> AnyResult<Binary> {
        self.hub.record("bank", "query", None, format!("{:?}", request));
        self.inner.query(api, storage, querier, block, request)
    }
    fn sudo<ExecC, QueryC>(&self, api: &dyn Api, storage: &mut dyn Storage, router: &dyn CosmosRouter<ExecC = ExecC, QueryC = QueryC>, block: &BlockInfo, msg: BankSudo) -> AnyResult<AppResponse>
    where
        ExecC: CustomMsg + DeserializeOwned + 'static,
        QueryC: CustomQuery + DeserializeOwned + 'static,
    {
        self.hub.record("bank", "sudo", None, format!("{:?}", msg));
        self.inner.sudo(api, storage, router, block, msg)
    }
}

/// Recording wasm module: logs, then delegates to the real keeper. Messages between contracts must pass through the
/// module the application was built with, like those of every other kind.
pub struct RecWasm {
    pub hub: Hub,
    pub inner: WasmKeeper<PMsg, PQuery>,
}
impl cw_multi_test::Wasm<PMsg, PQuery> for RecWasm {
    fn execute(&self, api: &dyn Api, storage: &mut dyn Storage, router: &dyn CosmosRouter<ExecC = PMsg, QueryC = PQuery>, block: &BlockInfo, sender: Addr, msg: cosmwasm_std::WasmMsg) -> AnyResult<AppResponse> {
        self.hub.record("wasm", "exec", Some(sender.to_string()), format!("{:?}", msg));
        self.inner.execute(api, storage, router, block, sender, msg)
    }
    fn query(&self, api: &dyn Api, storage: &dyn Storage, querier: &dyn Querier, block: &BlockInfo, request: cosmwasm_std::WasmQuery) -> AnyResult<Binary> {
        self.hub.record("wasm", "query", None, format!("{:?}", request));
        self.inner.query(api, storage, querier, block, request)
    }
    fn sudo(&self, api: &dyn Api, storage: &mut dyn Storage, router: &dyn CosmosRouter<ExecC = PMsg, QueryC = PQuery>, block: &BlockInfo, msg: cw_multi_test::WasmSudo) -> AnyResult<AppResponse> {
        self.hub.record("wasm", "sudo", None, format!("{:?}", msg));
        self.inner.sudo(api, storage, router, block, msg)
    }
    fn store_code(&mut self, creator: Addr, code: Box<dyn cw_multi_test::Contract<PMsg, PQuery>>) -> u64 {
        self.inner.store_code(creator, code)
    }
    fn store_code_with_id(&mut self, creator: Addr, code_id: u64, code: Box<dyn cw_multi_test::Contract<PMsg, PQuery>>) -> AnyResult<u64> {
        self.inner.store_code_with_id(creator, code_id, code)
    }
    fn duplicate_code(&mut self, code_id: u64) -> AnyResult<u64> {
        self.inner.duplicate_code(code_id)
    }
    fn contract_data(&self, storage: &dyn Storage, address: &Addr) -> AnyResult<cw_multi_test::ContractData> {
        self.inner.contract_data(storage, address)
    }
    fn dump_wasm_raw(&self, storage: &dyn Storage, address: &Addr) -> Vec<cosmwasm_std::Record> {
        self.inner.dump_wasm_raw(storage, address)
    }
}

pub struct RecStargate {
    pub hub: Hub,
}
impl Stargate for RecStargate {
    fn execute_stargate<ExecC, QueryC>(&self, _api: &dyn Api, storage: &mut dyn Storage, _router: &dyn CosmosRouter<ExecC = ExecC, QueryC = QueryC>, _block: &BlockInfo, sender: Addr, type_url: String, value: Binary) -> AnyResult<AppResponse>
    where
        ExecC: CustomMsg + DeserializeOwned + 'static,
        QueryC: CustomQuery + DeserializeOwned + 'static,
    {
        let n = self.hub.record("stargate", "exec", Some(sender.to_string()), format!("stargate {} {}", type_url, hex(&value)));
        storage.set(&marker_key("stargate", n), b"x");
        if self.hub.fails("stargate") {
            anyhow::bail!("recording stargate handler is configured to fail");
        }
        Ok(self.hub.answer(vec![], b"stargate"))
    }
    fn query_stargate(&self, _api: &dyn Api, _storage: &dyn Storage, _querier: &dyn Querier, _block: &BlockInfo, path: String, data: Binary) -> AnyResult<Binary> {
        self.hub.record("stargate", "query", None, format!("stargate {} {}", path, hex(&data)));
        if self.hub.fails("stargate") {
            anyhow::bail!("recording stargate handler is configured to fail");
        }
        Ok(Binary::from(b"\"stargate-answer\"".to_vec()))
    }
    fn execute_any<ExecC, QueryC>(&self, _api: &dyn Api, storage: &mut dyn Storage, _router: &dyn CosmosRouter<ExecC = ExecC, QueryC = QueryC>, _block: &BlockInfo, sender: Addr, msg: AnyMsg) -> AnyResult<AppResponse>
    where
        ExecC: CustomMsg + DeserializeOwned + 'static,
        QueryC: CustomQuery + DeserializeOwned + 'static,
    {
        let n = self.hub.record("stargate", "exec", Some(sender.to_string()), format!("any {} {}", msg.type_url, hex(&msg.value)));
        storage.set(&marker_key("stargate", n), b"x");
        if self.hub.fails("stargate") {
            anyhow::bail!("recording stargate handler is configured to fail");
        }
        Ok(self.hub.answer(vec![], b"any"))
    }
    fn query_grpc(&self, _api: &dyn Api, _storage: &dyn Storage, _querier: &dyn Querier, _block: &BlockInfo, request: GrpcQuery) -> AnyResult<Binary> {
        self.hub.record("stargate", "query", None, format!("grpc {} {}", request.path, hex(&request.data)));
        if self.hub.fails("stargate") {
            anyhow::bail!("recording stargate handler is configured to fail");
        }
        Ok(Binary::from(b"\"grpc-answer\"".to_vec()))
    }
}

pub type RApp = App<
    RecBank,
    MockApi,
    MockStorage,
    Rec<PMsg, PQuery, Empty>,
    RecWasm,
    Rec<StakingMsg, StakingQuery, StakingSudo>,
    Rec<DistributionMsg, Empty, Empty>,
    Rec<IbcMsg, IbcQuery, Empty>,
    Rec<GovMsg, Empty, Empty>,
    RecStargate,
>;

pub const MODULES: [&str; 6] = ["custom", "staking", "distribution", "ibc", "gov", "stargate"];

pub struct RWorld {
    pub app: RApp,
    pub hub: Hub,
    pub user: String,
    pub puppets: Vec<String>, // custom-typed puppet instances
    pub lifted: Vec<String>,  // Empty-typed, lifted instances
    pub codes: (u64, u64),    // (custom-typed code id, lifted code id)
}

impl RWorld {
    pub fn new() -> RWorld {
        let hub = Hub::default();
        let b: cw_multi_test::BasicAppBuilder<PMsg, PQuery> = AppBuilder::new_custom();
        let mut app = b
            .with_bank(RecBank { hub: hub.clone(), inner: BankKeeper::new() })
            .with_custom(Rec::<PMsg, PQuery, Empty>::new("custom", &hub))
            .with_wasm(RecWasm { hub: hub.clone(), inner: WasmKeeper::new() })
            .with_staking(Rec::<StakingMsg, StakingQuery, StakingSudo>::new("staking", &hub))
            .with_distribution(Rec::<DistributionMsg, Empty, Empty>::new("distribution", &hub))
            .with_ibc(Rec::<IbcMsg, IbcQuery, Empty>::new("ibc", &hub))
            .with_gov(Rec::<GovMsg, Empty, Empty>::new("gov", &hub))
            .with_stargate(RecStargate { hub: hub.clone() })
            .build(|_, _, _| {});
        let user = app.api().addr_make("router-user").to_string();
        app.sudo(SudoMsg::Bank(BankSudo::Mint { to_address: user.clone(), amount: vec![coin(1_000_000, "ua")] })).unwrap();
        let c1 = app.store_code(Box::new(Puppet { code_tag: 1, checksum: None }));
        let c2 = app.store_code(lifted_puppet());
        let init = Script { tag: 1, ..Default::default() };
        let mut puppets = vec![];
        let mut lifted = vec![];
        for i in 0..3 {
            puppets.push(app.instantiate_contract(c1, Addr::unchecked(user.clone()), &init, &[coin(1000, "ua")], format!("p{}", i), Some(user.clone())).unwrap().to_string());
            lifted.push(app.instantiate_contract(c2, Addr::unchecked(user.clone()), &init, &[coin(1000, "ua")], format!("l{}", i), Some(user.clone())).unwrap().to_string());
        }
        hub.log.borrow_mut().clear();
        let _ = take_trace();
        RWorld { app, hub, user, puppets, lifted, codes: (c1, c2) }
    }
}

#[derive(Clone, Copy, Debug, PartialEq, Eq)]
pub enum Kind {
    Bank,
    /// a bank send without coins: it must still reach the bank module, whose rejection is what the caller sees
    BankEmpty,
    Staking,
    Distribution,
    Custom,
    Ibc,
    Gov,
    Stargate,
    Any,
    /// a message to another contract: it passes through the configured wasm module like any other kind
    Wasm,
}

pub const KINDS: [Kind; 10] = [Kind::Bank, Kind::BankEmpty, Kind::Staking, Kind::Distribution, Kind::Custom, Kind::Ibc, Kind::Gov, Kind::Stargate, Kind::Any, Kind::Wasm];

pub fn module_of(k: Kind) -> &'static str {
    match k {
        Kind::Bank | Kind::BankEmpty => "bank",
        Kind::Staking => "staking",
        Kind::Distribution => "distribution",
        Kind::Custom => "custom",
        Kind::Ibc => "ibc",
        Kind::Gov => "gov",
        Kind::Stargate | Kind::Any => "stargate",
        Kind::Wasm => "wasm",
    }
}

/// Payload strings in unusual but valid spellings: as given, without its first character (a type URL without the
/// leading slash), empty, padded with blanks, upper case — a module is handed what was sent, whatever it looks like.
fn odd(n: u64, base: String) -> String {
    match n % 7 {
        1 => base.chars().skip(1).collect(),
        2 => String::new(),
        3 => format!(" {} ", base),
        4 => base.to_uppercase(),
        _ => base,
    }
}

pub fn make_msg(k: Kind, n: u64, to: &str) -> CosmosMsg<PMsg> {
    match k {
        Kind::Wasm => to_cosmos::<PMsg>(&Msg::Exec { addr: to.to_string(), script: Box::new(Script { tag: 900_000 + n as u32, ..Default::default() }), funds: vec![] }),
        Kind::Bank => CosmosMsg::Bank(BankMsg::Send { to_address: to.to_string(), amount: vec![coin(1 + n as u128 % 3, "ua")] }),
        Kind::BankEmpty => CosmosMsg::Bank(BankMsg::Send { to_address: format!("{}-{}", to, n), amount: vec![] }),
        Kind::Staking => CosmosMsg::Staking(StakingMsg::Delegate { validator: odd(n, format!("val{}", n)), amount: coin(n as u128 + 1, "ua") }),
        Kind::Distribution => CosmosMsg::Distribution(DistributionMsg::SetWithdrawAddress { address: odd(n / 7, format!("addr{}", n)) }),
        Kind::Custom => CosmosMsg::Custom(PMsg { tag: n as u32, fail: false }),
        Kind::Ibc => CosmosMsg::Ibc(IbcMsg::CloseChannel { channel_id: odd(n, format!("channel-{}", n)) }),
        Kind::Gov => CosmosMsg::Gov(GovMsg::Vote { proposal_id: n, option: if n % 2 == 0 { VoteOption::Yes } else { VoteOption::NoWithVeto } }),
        #[allow(deprecated)]
        Kind::Stargate => CosmosMsg::Stargate { type_url: odd(n, format!("/test.Msg{}", n)), value: Binary::from(if n % 5 == 0 { vec![] } else { vec![n as u8, 1, 2] }) },
        Kind::Any => CosmosMsg::Any(AnyMsg { type_url: odd(n, format!("/test.Any{}", n)), value: Binary::from(if n % 5 == 0 { vec![] } else { vec![n as u8, 3] }) }),
    }
}

pub fn expected_payload(m: &CosmosMsg<PMsg>) -> String {
    match m {
        CosmosMsg::Bank(b) => format!("{:?}", b),
        CosmosMsg::Staking(s) => format!("{:?}", s),
        CosmosMsg::Distribution(d) => format!("{:?}", d),
        CosmosMsg::Custom(c) => format!("{:?}", c),
        CosmosMsg::Ibc(i) => format!("{:?}", i),
        CosmosMsg::Gov(g) => format!("{:?}", g),
        CosmosMsg::Wasm(w) => format!("{:?}", w),
        #[allow(deprecated)]
        CosmosMsg::Stargate { type_url, value } => format!("stargate {} {}", type_url, hex(value)),
        CosmosMsg::Any(a) => format!("any {} {}", a.type_url, hex(&a.value)),
        _ => "?".into(),
    }
}

#[derive(Clone, Copy, Debug, PartialEq, Eq)]
pub enum Origin {
    Top,
    /// sub-message of the custom-typed puppet at nesting depth d (1..3)
    Puppet(usize),
    /// sub-message of the Empty-typed, lifted puppet at nesting depth d
    Lifted(usize),
}

pub type Fail = (String, String);

/// The entry point of the emitting contract that returns the message.
#[derive(Clone, Copy, Debug, PartialEq, Eq)]
pub enum Ent {
    Execute,
    Instantiate,
    Reply,
    /// the reply handler invoked after a FAILED sub-message
    ReplyErr,
    Sudo,
    Migrate,
}

/// How the top-level call is made.
pub enum TopCall {
    Execute(CosmosMsg<PMsg>),
    WasmSudo(String, Script),
}

/// Builds the transaction that makes `msg` originate from `origin` through entry point `ent` of the emitting
/// contract; returns (top-level call, expected sender if already known, tag of the emitting script).
/// `mode`: reply mode of the emitting sub-message; `sibling`: an accepting sibling dispatched before it.
fn build(w: &RWorld, origin: Origin, ent: Ent, msg: &CosmosMsg<PMsg>, mode: RMode, sibling: Option<&CosmosMsg<PMsg>>, tag: u32, twice: bool) -> (TopCall, Option<String>, u32) {
    // a contract created by this very transaction needs money of its own to send a bank message
    let inst_funds = if matches!(msg, CosmosMsg::Bank(_)) { vec![coin(8, "ua")] } else { vec![] };
    match origin {
        Origin::Top => (TopCall::Execute(msg.clone()), Some(w.user.clone()), 0),
        Origin::Puppet(d) | Origin::Lifted(d) => {
            let lifted = matches!(origin, Origin::Lifted(_));
            let chain: Vec<String> = (0..d).map(|i| if lifted && i + 1 == d { w.lifted[i % 3].clone() } else { w.puppets[i % 3].clone() }).collect();
            let emitter = chain[d - 1].clone();
            let plan = ReplyPlan { nonce: tag, on_ok: Script { tag: tag + 1, ..Default::default() }, on_err: Script { tag: tag + 2, ..Default::default() } };
            let mut msgs = vec![];
            if let Some(s) = sibling {
                msgs.push(Sub { id: 1, mode: RMode::Never, payload: Payload::Raw(Binary::default()), msg: Msg::Opaque(s.clone()) });
            }
            msgs.push(Sub { id: 2, mode, payload: Payload::Plan(Box::new(plan)), msg: Msg::Opaque(msg.clone()) });
            if twice {
                // the very same sub-message listed twice in a row is dispatched twice
                let again = msgs.last().unwrap().clone();
                msgs.push(again);
            }
            let emit_tag = tag + 3;
            let emit = Script { tag: emit_tag, writes: vec![(Binary::from(b"w".to_vec()), Some(Binary::from(format!("{}", tag).into_bytes())))], msgs, ..Default::default() };
            // the message that makes the emitting contract run `emit` in the requested entry point
            let (inner, known_sender): (Msg, Option<String>) = match ent {
                Ent::Execute => (Msg::Exec { addr: emitter.clone(), script: Box::new(emit), funds: vec![] }, Some(emitter.clone())),
                Ent::Instantiate => (
                    Msg::Inst { code_id: if lifted { w.codes.1 } else { w.codes.0 }, script: Box::new(emit), funds: inst_funds, label: format!("emitter{}", tag), admin: None, salt: None },
                    None, // the new contract's address is read from the trace
                ),
                Ent::Reply => {
                    let outer = Script {
                        tag: tag + 4,
                        msgs: vec![Sub {
                            id: 9,
                            mode: RMode::Success,
                            payload: Payload::Plan(Box::new(ReplyPlan { nonce: tag + 5, on_ok: emit, on_err: Script { tag: tag + 6, ..Default::default() } })),
                            msg: Msg::BankSend { to: emitter.clone(), coins: vec![coin(1, "ua")] },
                        }],
                        ..Default::default()
                    };
                    (Msg::Exec { addr: emitter.clone(), script: Box::new(outer), funds: vec![] }, Some(emitter.clone()))
                }
                Ent::ReplyErr => {
                    let outer = Script {
                        tag: tag + 4,
                        msgs: vec![Sub {
                            id: 9,
                            mode: RMode::Error,
                            payload: Payload::Plan(Box::new(ReplyPlan { nonce: tag + 5, on_ok: Script { tag: tag + 6, ..Default::default() }, on_err: emit })),
                            // burning nothing always fails in the bank
                            msg: Msg::BankBurn { coins: vec![] },
                        }],
                        ..Default::default()
                    };
                    (Msg::Exec { addr: emitter.clone(), script: Box::new(outer), funds: vec![] }, Some(emitter.clone()))
                }
                Ent::Sudo => return (TopCall::WasmSudo(emitter.clone(), emit), Some(emitter), emit_tag),
                Ent::Migrate => (Msg::Migrate { addr: emitter.clone(), code_id: if lifted { w.codes.1 } else { w.codes.0 }, script: Box::new(emit) }, Some(emitter.clone())),
            };
            let mut top = inner;
            for lvl in (0..d - 1).rev() {
                let script = Script { tag: tag + 10 + lvl as u32, msgs: vec![Sub { id: 0, mode: RMode::Never, payload: Payload::Raw(Binary::default()), msg: top }], ..Default::default() };
                top = Msg::Exec { addr: chain[lvl].clone(), script: Box::new(script), funds: vec![] };
            }
            (TopCall::Execute(to_cosmos::<PMsg>(&top)), known_sender, emit_tag)
        }
    }
}

/// One cell of the matrix: message of kind `k` from `origin` under the current configuration.
pub fn exec_cell(w: &mut RWorld, k: Kind, origin: Origin, ent: Ent, mode: RMode, with_sibling: bool, n: u64, rep: &mut Report) -> Option<Fail> {
    if k == Kind::Custom && matches!(origin, Origin::Lifted(_)) {
        return None; // cannot be expressed in the Empty message type
    }
    let to = w.puppets[2].clone();
    *w.hub.shape.borrow_mut() = ((n ^ (n >> 2) ^ (n >> 5) ^ (n >> 9)) % 16) as u8;
    let msg = make_msg(k, n, &to);
    let sibling = if with_sibling && origin != Origin::Top { Some(make_msg(if k == Kind::Ibc { Kind::Gov } else { Kind::Ibc }, n + 1000, &to)) } else { None };
    let sibling_module = sibling.as_ref().map(|_| if k == Kind::Ibc { "gov" } else { "ibc" });
    let module = module_of(k);
    let module_fails = (module != "bank" && module != "wasm" && w.hub.fails(module)) || k == Kind::BankEmpty;
    let twice = origin != Origin::Top && !module_fails && n % 5 == 2;
    let (top, known_sender, emit_tag) = build(w, origin, ent, &msg, mode, sibling.as_ref(), (n as u32) * 100 + 5000, twice);
    let sibling_fails = sibling_module.map(|m| w.hub.fails(m)).unwrap_or(false);
    // long runs must not fail for lack of funds: emitting contracts attach coins to bank kinds
    if matches!(k, Kind::Bank | Kind::BankEmpty) {
        for a in w.puppets.iter().chain(w.lifted.iter()).cloned().collect::<Vec<_>>() {
            let _ = w.app.sudo(SudoMsg::Bank(BankSudo::Mint { to_address: a, amount: vec![coin(10, "ua")] }));
        }
    }
    let before = rawstate::dump(w.app.storage());
    w.hub.log.borrow_mut().clear();
    let _ = take_trace();
    let user = w.user.clone();
    let res = catch(|| match &top {
        TopCall::Execute(m) => w.app.execute(Addr::unchecked(user), m.clone()).map_err(|e| format!("{:#}", e)),
        TopCall::WasmSudo(addr, script) => w.app.wasm_sudo(Addr::unchecked(addr.clone()), script).map_err(|e| format!("{:#}", e)),
    });
    let log: Vec<LogEntry> = w.hub.log.borrow().clone();
    let trace = take_trace();
    // the emitting contract as the trace saw it (needed when it was created by this very transaction)
    let expected_sender = known_sender.unwrap_or_else(|| trace.iter().find(|t| t.tag == emit_tag).map(|t| t.contract.clone()).unwrap_or_default());
    rep.evaluations += 1;
    let cell = format!("{:?}/{:?}/{:?}/{}{}", k, origin, ent, if module_fails { "module-fails" } else { "module-accepts" }, if mode == RMode::Error { "/caught" } else { "" });
    rep.bump(&format!("c17/exec/{}", cell));
    rep.fingerprints.insert(fp_str(&format!("{}{}{}", cell, with_sibling, w.hub.failing.borrow().iter().map(|(k, v)| format!("{}{}", k, v)).collect::<String>())));
    let ctx = format!("{:?} from {:?} via {:?} (mode {:?}, sibling {:?}, module {} {})", k, origin, ent, mode, sibling_module, module, if module_fails { "fails" } else { "accepts" });
    let res = match res {
        Ok(r) => r,
        Err(p) => return Some((format!("panic-routing-{:?}-from-{}", k, origin_class(origin)).to_lowercase(), format!("{}: panic {}", ctx, p))),
    };
    if sibling_fails {
        // the earlier sibling aborts the transaction before our message is dispatched
        if res.is_ok() {
            return Some(("failing-module-did-not-abort-transaction".into(), format!("{}: sibling module failed but the transaction succeeded", ctx)));
        }
        let after = rawstate::dump(w.app.storage());
        if after != before {
            return Some(("failed-transaction-left-state-changes".into(), format!("{}: {:?}", ctx, rawstate::diff(&before, &after))));
        }
        if log.iter().any(|e| e.module == module && e.kind == "exec" && e.payload == expected_payload(&msg)) {
            return Some(("message-dispatched-after-earlier-sibling-failed".into(), format!("{}: log {:?}", ctx, log)));
        }
        return None;
    }
    // exactly one entry for our message, in the right module, with the true sender and an identical payload
    let mine: Vec<&LogEntry> = log.iter().filter(|e| e.kind == "exec" && e.payload == expected_payload(&msg)).collect();
    rep.bump("c17/log_entries_checked");
    let expected_deliveries = if twice { 2 } else { 1 };
    if twice {
        rep.bump("c17/same_submessage_listed_twice");
    }
    if mine.len() != expected_deliveries {
        let others: Vec<String> = log.iter().map(|e| format!("{}:{}:{}", e.module, e.kind, e.payload)).collect();
        return Some((if mine.len() < expected_deliveries { "message-not-delivered-intact".into() } else { "message-delivered-more-than-once".into() }, format!("{}: expected {} log entries {:?}, log is {:?}; result {:?}", ctx, expected_deliveries, expected_payload(&msg), others, res.as_ref().map(|_| "ok"))));
    }
    if mine.iter().any(|e| e.module != module) {
        return Some(("message-routed-to-another-module".into(), format!("{}: delivered to {}", ctx, mine[0].module)));
    }
    if mine.iter().any(|e| e.sender.as_deref() != Some(expected_sender.as_str())) {
        return Some(("module-told-another-sender".into(), format!("{}: sender {:?}, expected {}", ctx, mine[0].sender, expected_sender)));
    }
    // no other module saw anything it should not have
    for e in &log {
        let allowed = e.payload == expected_payload(&msg) || sibling.as_ref().map(|s| e.payload == expected_payload(s)).unwrap_or(false) || e.module == "bank" || e.module == "wasm";
        if !allowed {
            return Some(("unrelated-module-invoked".into(), format!("{}: unexpected log entry {:?}", ctx, e)));
        }
    }
    let caught = module_fails && mode.on_err() && origin != Origin::Top;
    let expect_ok = !module_fails || caught;
    if res.is_ok() != expect_ok {
        return Some((if expect_ok { "caller-sees-failure-although-module-accepted".into() } else { "failing-module-error-swallowed".into() }, format!("{}: result {:?}", ctx, res.map(|_| "ok"))));
    }
    let after = rawstate::dump(w.app.storage());
    if !expect_ok {
        rep.bump("c17/failed_tx_state_unchanged_checks");
        if after != before {
            return Some(("failed-transaction-left-state-changes".into(), format!("{}: {:?}", ctx, rawstate::diff(&before, &after))));
        }
    } else if caught {
        // the failing module's marker must be gone, the emitter's own write and the sibling's marker must be kept
        rep.bump("c17/caught_failure_rollback_checks");
        let d = rawstate::diff(&before, &after);
        if d.iter().any(|l| l.contains(&format!("rec{}/", module))) {
            return Some(("caught-module-failure-left-its-writes".into(), format!("{}: {:?}", ctx, d)));
        }
        if let Some(sm) = sibling_module {
            if !d.iter().any(|l| l.contains(&format!("rec{}/", sm))) {
                return Some(("earlier-sibling-effect-lost".into(), format!("{}: {:?}", ctx, d)));
            }
        }
        // the reply handler ran with an Err result
        if !trace.iter().any(|t| matches!(&t.reply, Some((2, _, ReplySeen::Err)))) {
            return Some(("module-failure-not-reported-to-reply".into(), format!("{}: no error reply in trace", ctx)));
        }
    } else if module != "bank" && module != "wasm" {
        if !rawstate::diff(&before, &after).iter().any(|l| l.contains(&format!("rec{}/", module))) {
            return Some(("accepted-module-effect-lost".into(), format!("{}: marker of {} missing", ctx, module)));
        }
        if origin != Origin::Top && (mode == RMode::Always || mode == RMode::Success) {
            // the reply carries what the module returned (whatever that is: data, events, both or nothing)
            let shape = *w.hub.shape.borrow();
            let want: Option<Vec<u8>> = if shape & 1 != 0 {
                None
            } else {
                Some(match k {
                    Kind::Stargate => b"stargate".to_vec(),
                    Kind::Any => b"any".to_vec(),
                    _ => module.as_bytes().to_vec(),
                })
            };
            let want_event = shape & 2 == 0 && !matches!(k, Kind::Stargate | Kind::Any);
            let ok = trace.iter().any(|t| matches!(&t.reply, Some((2, _, ReplySeen::Ok { data, events })) if data.as_ref().map(|d| d.to_vec()) == want && events.iter().any(|e| e.ty == Hub::event_type(shape)) == want_event));
            rep.bump("c17/reply_data_from_module_checked");
            rep.bump(&format!("c17/reply_after_module_answer/{}{}", if shape & 1 == 0 { "data" } else { "no-data" }, if shape & 2 == 0 { "+events" } else { "+no-events" }));
            if shape & 2 == 0 {
                rep.bump(&format!("c17/module_event_type/{:?}", Hub::event_type(shape)));
            }
            if !ok {
                return Some(("module-response-not-delivered-to-reply".into(), format!("{}: trace replies {:?}", ctx, trace.iter().filter_map(|t| t.reply.clone()).collect::<Vec<_>>())));
            }
        }
    }
    None
}

fn origin_class(o: Origin) -> &'static str {
    match o {
        Origin::Top => "top-level",
        Origin::Puppet(_) => "custom-typed-contract",
        Origin::Lifted(_) => "lifted-empty-contract",
    }
}

#[derive(Clone, Copy, Debug, PartialEq, Eq)]
pub enum QKind {
    Bank,
    Staking,
    Custom,
    Ibc,
    Stargate,
    Grpc,
    Wasm,
}
pub const QKINDS: [QKind; 7] = [QKind::Bank, QKind::Staking, QKind::Custom, QKind::Ibc, QKind::Stargate, QKind::Grpc, QKind::Wasm];

fn make_query(k: QKind, n: u64, addr: &str) -> (QueryRequest<PQuery>, &'static str, String) {
    match k {
        QKind::Bank => {
            let q = BankQuery::Balance { address: addr.to_string(), denom: format!("ua{}", n % 2) };
            (QueryRequest::Bank(q.clone()), "bank", format!("{:?}", q))
        }
        QKind::Wasm => {
            let q = if n % 2 == 0 { cosmwasm_std::WasmQuery::ContractInfo { contract_addr: addr.to_string() } } else { cosmwasm_std::WasmQuery::Raw { contract_addr: addr.to_string(), key: Binary::from(vec![n as u8, (n >> 8) as u8]) } };
            (QueryRequest::Wasm(q.clone()), "wasm", format!("{:?}", q))
        }
        QKind::Staking => {
            let q = StakingQuery::Validator { address: odd(n, format!("val{}", n)) };
            (QueryRequest::Staking(q.clone()), "staking", format!("{:?}", q))
        }
        QKind::Custom => {
            let q = PQuery { n };
            (QueryRequest::Custom(q.clone()), "custom", format!("{:?}", q))
        }
        QKind::Ibc => {
            let q = IbcQuery::Channel { channel_id: odd(n, format!("channel-{}", n)), port_id: None };
            (QueryRequest::Ibc(q.clone()), "ibc", format!("{:?}", q))
        }
        #[allow(deprecated)]
        QKind::Stargate => {
            let path = odd(n, format!("/q{}", n));
            (QueryRequest::Stargate { path: path.clone(), data: Binary::from(vec![n as u8]) }, "stargate", format!("stargate {} {}", path, hex(&[n as u8])))
        }
        QKind::Grpc => {
            let path = odd(n, format!("/g{}", n));
            (QueryRequest::Grpc(GrpcQuery { path: path.clone(), data: Binary::from(vec![n as u8, 9]) }), "stargate", format!("grpc {} {}", path, hex(&[n as u8, 9])))
        }
    }
}

pub fn query_cell(w: &mut RWorld, k: QKind, origin: Origin, n: u64, rep: &mut Report) -> Option<Fail> {
    let addr = w.puppets[0].clone();
    let (req, module, payload) = make_query(k, n, &addr);
    let bytes = to_json_vec(&req).unwrap();
    let module_fails = module != "bank" && module != "wasm" && w.hub.fails(module);
    let before = rawstate::dump(w.app.storage());
    w.hub.log.borrow_mut().clear();
    let _ = take_trace();
    rep.evaluations += 1;
    rep.bump(&format!("c17/query/{:?}/{:?}/{}", k, origin, if module_fails { "module-fails" } else { "module-accepts" }));
    let ctx = format!("query {:?} from {:?} (module {} {})", k, origin, module, if module_fails { "fails" } else { "accepts" });
    // answer as seen by the caller: Some(bytes) or None on error
    let answer: Option<Vec<u8>> = match origin {
        Origin::Top => match catch(|| w.app.raw_query(&bytes)) {
            Ok(cosmwasm_std::SystemResult::Ok(cosmwasm_std::ContractResult::Ok(b))) => Some(b.to_vec()),
            Ok(_) => None,
            Err(p) => return Some((format!("panic-routing-query-{:?}", k).to_lowercase(), format!("{}: {}", ctx, p))),
        },
        Origin::Puppet(d) | Origin::Lifted(d) => {
            let lifted = matches!(origin, Origin::Lifted(_));
            let chain: Vec<String> = (0..d).map(|i| if lifted && i + 1 == d { w.lifted[i % 3].clone() } else { w.puppets[i % 3].clone() }).collect();
            let mut script = Script { tag: 77, probes: vec![Probe::RawQuery { request: Binary::from(bytes.clone()) }], ..Default::default() };
            for lvl in (0..d - 1).rev() {
                script = Script { tag: 70 + lvl as u32, msgs: vec![Sub { id: 0, mode: RMode::Never, payload: Payload::Raw(Binary::default()), msg: Msg::Exec { addr: chain[lvl + 1].clone(), script: Box::new(script), funds: vec![] } }], ..Default::default() };
            }
            let user = w.user.clone();
            let top = to_cosmos::<PMsg>(&Msg::Exec { addr: chain[0].clone(), script: Box::new(script), funds: vec![] });
            match catch(|| w.app.execute(Addr::unchecked(user), top).map_err(|e| format!("{:#}", e))) {
                Ok(Ok(_)) => {}
                Ok(Err(e)) => return Some(("query-carrier-transaction-failed".into(), format!("{}: {}", ctx, e))),
                Err(p) => return Some((format!("panic-routing-query-{:?}", k).to_lowercase(), format!("{}: {}", ctx, p))),
            }
            let trace = take_trace();
            let t = trace.iter().find(|t| t.tag == 77)?;
            let (a, b) = &t.probes[0];
            if a != b {
                return Some(("same-query-twice-differs".into(), format!("{}: {} vs {}", ctx, a, b)));
            }
            a.strip_prefix("ok:").map(unhex)
        }
    };
    let log: Vec<LogEntry> = w.hub.log.borrow().clone();
    let mine: Vec<&LogEntry> = log.iter().filter(|e| e.kind == "query" && e.payload == payload).collect();
    let expected_calls = if origin == Origin::Top { 1 } else { 2 }; // contracts issue every probe twice
    rep.bump("c17/log_entries_checked");
    if mine.len() != expected_calls {
        return Some((if mine.is_empty() { "query-not-delivered-intact".into() } else { "query-delivered-wrong-number-of-times".into() }, format!("{}: {} matching log entries (expected {}), log {:?}", ctx, mine.len(), expected_calls, log)));
    }
    if mine.iter().any(|e| e.module != module) {
        return Some(("query-routed-to-another-module".into(), format!("{}: delivered to {:?}", ctx, mine.iter().map(|e| e.module).collect::<Vec<_>>())));
    }
    for e in &log {
        if e.kind == "query" && e.payload != payload && e.module != "bank" && e.module != "wasm" {
            return Some(("unrelated-module-queried".into(), format!("{}: {:?}", ctx, e)));
        }
    }
    if answer.is_some() == module_fails {
        return Some((if module_fails { "failing-module-query-answered".into() } else { "accepted-query-reported-as-failure".into() }, format!("{}: answer {:?}", ctx, answer.map(|a| hex(&a)))));
    }
    if let Some(a) = &answer {
        let want: Vec<u8> = match k {
            QKind::Bank | QKind::Wasm => a.clone(), // the real keepers' answers (C08-C11 judge them)
            QKind::Grpc => b"\"grpc-answer\"".to_vec(),
            _ => format!("\"{}-answer\"", module).into_bytes(),
        };
        if *a != want {
            return Some(("query-answer-altered".into(), format!("{}: answer {}, module returned {}", ctx, String::from_utf8_lossy(a), String::from_utf8_lossy(&want))));
        }
    }
    if origin == Origin::Top {
        let after = rawstate::dump(w.app.storage());
        if after != before {
            return Some(("query-changed-state".into(), format!("{}: {:?}", ctx, rawstate::diff(&before, &after))));
        }
    }
    None
}

/// Compiled configurations with the built-in accepting / failing module types.
pub fn builtin_cells(rep: &mut Report) -> Vec<Fail> {
    let mut fails = vec![];
    fn run<IbcT: Ibc, GovT: Gov, SgT: Stargate, CT: Module<ExecT = PMsg, QueryT = PQuery, SudoT = Empty>>(
        ibc: IbcT,
        gov: GovT,
        sg: SgT,
        custom: CT,
        accept: [bool; 4],
        name: &str,
        rep: &mut Report,
        fails: &mut Vec<Fail>,
    ) {
        let b: cw_multi_test::BasicAppBuilder<PMsg, PQuery> = AppBuilder::new_custom();
        let mut app = b.with_ibc(ibc).with_gov(gov).with_stargate(sg).with_custom(custom).build(|_, _, _| {});
        let user = app.api().addr_make("u").to_string();
        let c1 = app.store_code(Box::new(Puppet { code_tag: 1, checksum: None }));
        let c2 = app.store_code(lifted_puppet());
        let init = Script { tag: 1, ..Default::default() };
        let p = app.instantiate_contract(c1, Addr::unchecked(user.clone()), &init, &[], "p", None).unwrap().to_string();
        let l = app.instantiate_contract(c2, Addr::unchecked(user.clone()), &init, &[], "l", None).unwrap().to_string();
        for (i, k) in [Kind::Ibc, Kind::Gov, Kind::Stargate, Kind::Any, Kind::Custom].iter().enumerate() {
            let acc = match k {
                Kind::Ibc => accept[0],
                Kind::Gov => accept[1],
                Kind::Stargate | Kind::Any => accept[2],
                _ => accept[3],
            };
            for origin in ["top", "puppet", "lifted"] {
                if *k == Kind::Custom && origin == "lifted" {
                    continue;
                }
                let msg = make_msg(*k, i as u64, &p);
                let top = match origin {
                    "top" => msg.clone(),
                    o => {
                        let script = Script { tag: 5, msgs: vec![Sub { id: 1, mode: RMode::Never, payload: Payload::Raw(Binary::default()), msg: Msg::Opaque(msg.clone()) }], ..Default::default() };
                        to_cosmos::<PMsg>(&Msg::Exec { addr: if o == "puppet" { p.clone() } else { l.clone() }, script: Box::new(script), funds: vec![] })
                    }
                };
                let before = rawstate::dump(app.storage());
                let u = user.clone();
                let r = catch(|| app.execute(Addr::unchecked(u), top).map(|_| ()).map_err(|e| format!("{:#}", e)));
                rep.evaluations += 1;
                rep.bump(&format!("c17/builtin/{}/{:?}/{}/{}", name, k, origin, if acc { "accepting" } else { "failing" }));
                rep.fingerprints.insert(fp_str(&format!("builtin{}{:?}{}", name, k, origin)));
                match r {
                    Err(pn) => fails.push((format!("panic-routing-{:?}-from-{}", k, if origin == "lifted" { "lifted-empty-contract" } else if origin == "puppet" { "custom-typed-contract" } else { "top-level" }).to_lowercase(), format!("built-in {} modules, {:?} from {}: panic {}", name, k, origin, pn))),
                    Ok(res) => {
                        if res.is_ok() != acc {
                            fails.push((if acc { "built-in-accepting-module-reported-failure".into() } else { "built-in-failing-module-error-swallowed".into() }, format!("built-in {} modules, {:?} from {}: {:?}", name, k, origin, res)));
                        }
                        if res.is_err() && rawstate::dump(app.storage()) != before {
                            fails.push(("failed-transaction-left-state-changes".into(), format!("built-in {} modules, {:?} from {}", name, k, origin)));
                        }
                    }
                }
            }
        }
        // queries
        #[allow(deprecated)]
        let qs: Vec<(QueryRequest<PQuery>, bool)> = vec![
            (QueryRequest::Ibc(IbcQuery::PortId {}), accept[0]),
            (QueryRequest::Stargate { path: "/p".into(), data: Binary::default() }, accept[2]),
            (QueryRequest::Grpc(GrpcQuery { path: "/g".into(), data: Binary::default() }), accept[2]),
            (QueryRequest::Custom(PQuery { n: 1 }), accept[3]),
        ];
        for (q, acc) in qs {
            let bytes = to_json_vec(&q).unwrap();
            let r = catch(|| app.raw_query(&bytes));
            rep.evaluations += 1;
            rep.bump(&format!("c17/builtin/{}/query/{}", name, if acc { "accepting" } else { "failing" }));
            match r {
                Err(pn) => fails.push(("panic-routing-query".into(), format!("built-in {}: {:?}: {}", name, q, pn))),
                Ok(cosmwasm_std::SystemResult::Ok(cosmwasm_std::ContractResult::Ok(_))) => {
                    if !acc {
                        fails.push(("built-in-failing-module-query-answered".into(), format!("built-in {}: {:?}", name, q)));
                    }
                }
                Ok(_) => {
                    if acc {
                        fails.push(("built-in-accepting-module-query-failed".into(), format!("built-in {}: {:?}", name, q)));
                    }
                }
            }
        }
    }
    run(IbcAcceptingModule::new(), GovAcceptingModule::new(), StargateAccepting, AcceptingModule::<PMsg, PQuery, Empty>::new(), [true, true, true, true], "all-accepting", rep, &mut fails);
    run(IbcFailingModule::new(), GovFailingModule::new(), StargateFailing, FailingModule::<PMsg, PQuery, Empty>::new(), [false, false, false, false], "all-failing", rep, &mut fails);
    run(IbcAcceptingModule::new(), GovFailingModule::new(), StargateAccepting, FailingModule::<PMsg, PQuery, Empty>::new(), [true, false, true, false], "mixed-a", rep, &mut fails);
    run(IbcFailingModule::new(), GovAcceptingModule::new(), StargateFailing, AcceptingModule::<PMsg, PQuery, Empty>::new(), [false, true, false, true], "mixed-b", rep, &mut fails);
    fails
}

/// Sudo routing: staking and bank sudo reach their modules.
pub fn sudo_cells(w: &mut RWorld, rep: &mut Report) -> Vec<Fail> {
    let mut fails = vec![];
    w.hub.log.borrow_mut().clear();
    let before = rawstate::dump(w.app.storage());
    let fails_staking = w.hub.fails("staking");
    let msg = StakingSudo::Slash { validator: "v".into(), percentage: cosmwasm_std::Decimal::percent(5) };
    let r = catch(|| w.app.sudo(SudoMsg::Staking(msg.clone())).map(|_| ()).map_err(|e| e.to_string()));
    rep.evaluations += 1;
    rep.bump("c17/sudo/staking");
    let log = w.hub.log.borrow().clone();
    match r {
        Err(p) => fails.push(("panic-routing-sudo".into(), p)),
        Ok(res) => {
            if log.iter().filter(|e| e.module == "staking" && e.kind == "sudo" && e.payload == format!("{:?}", msg)).count() != 1 || log.len() != 1 {
                fails.push(("sudo-not-delivered-to-its-module".into(), format!("log {:?}", log)));
            }
            if res.is_ok() == fails_staking {
                fails.push(("sudo-result-differs-from-module".into(), format!("{:?}", res)));
            }
            if res.is_err() && rawstate::dump(w.app.storage()) != before {
                fails.push(("failed-transaction-left-state-changes".into(), "staking sudo".into()));
            }
        }
    }
    // bank sudo (mint) reaches the bank module
    w.hub.log.borrow_mut().clear();
    let mint = BankSudo::Mint { to_address: w.user.clone(), amount: vec![coin(3, "ua")] };
    let r = catch(|| w.app.sudo(SudoMsg::Bank(mint.clone())).map(|_| ()).map_err(|e| e.to_string()));
    rep.evaluations += 1;
    rep.bump("c17/sudo/bank");
    let log = w.hub.log.borrow().clone();
    match r {
        Err(p) => fails.push(("panic-routing-sudo".into(), p)),
        Ok(res) => {
            if log.iter().filter(|e| e.module == "bank" && e.kind == "sudo" && e.payload == format!("{:?}", mint)).count() != 1 || log.len() != 1 {
                fails.push(("sudo-not-delivered-to-its-module".into(), format!("bank mint: log {:?}", log)));
            }
            if res.is_err() {
                fails.push(("sudo-result-differs-from-module".into(), format!("bank mint: {:?}", res)));
            }
        }
    }
    fails
}


/// Top-level batches (`execute_multi`): messages reach their modules in the given order, exactly once, up to and
/// including the first one whose module fails; nothing after it is dispatched, the caller sees the failure and no
/// state change survives.
pub fn multi_cells(w: &mut RWorld, n0: u64, rep: &mut Report) -> Vec<Fail> {
    let mut fails = vec![];
    let kinds = [Kind::Staking, Kind::Distribution, Kind::Custom, Kind::Ibc, Kind::Gov, Kind::Stargate, Kind::Any, Kind::Bank, Kind::BankEmpty];
    let to = w.puppets[2].clone();
    let user = w.user.clone();
    let mut n = n0;
    for (i, &k1) in kinds.iter().enumerate() {
        // three messages: k1, the next kind, the one after
        let ks = [k1, kinds[(i + 1 + (n0 as usize % 3)) % kinds.len()], kinds[(i + 4) % kinds.len()]];
        let msgs: Vec<CosmosMsg<PMsg>> = ks.iter().map(|k| { n += 1; make_msg(*k, n, &to) }).collect();
        let failing: Vec<bool> = ks.iter().map(|k| (module_of(*k) != "bank" && w.hub.fails(module_of(*k))) || *k == Kind::BankEmpty).collect();
        let first_fail = failing.iter().position(|f| *f);
        let before = rawstate::dump(w.app.storage());
        w.hub.log.borrow_mut().clear();
        let res = catch(|| w.app.execute_multi(Addr::unchecked(user.clone()), msgs.clone()).map(|r| r.len()).map_err(|e| format!("{:#}", e)));
        let log: Vec<LogEntry> = w.hub.log.borrow().clone();
        rep.evaluations += 1;
        rep.bump(&format!("c17/multi/{}", match first_fail { None => "all-accepted".to_string(), Some(p) => format!("message-{}-fails", p) }));
        let ctx = format!("execute_multi {:?} (modules failing: {:?})", ks, failing);
        let res = match res {
            Ok(r) => r,
            Err(p) => {
                fails.push(("panic-routing-batch".into(), format!("{}: {}", ctx, p)));
                continue;
            }
        };
        // the log, restricted to exec entries, must be exactly the dispatched prefix, in order, with the signer as sender
        let upto = first_fail.map(|p| p + 1).unwrap_or(msgs.len());
        let want: Vec<(String, String)> = msgs[..upto].iter().zip(ks.iter()).map(|(m, k)| (module_of(*k).to_string(), expected_payload(m))).collect();
        let got: Vec<(String, String)> = log.iter().filter(|e| e.kind == "exec").map(|e| (e.module.to_string(), e.payload.clone())).collect();
        if got != want {
            let sig = if got.len() > want.len() { "message-dispatched-after-an-earlier-one-failed" } else { "batch-not-delivered-in-order-exactly-once" };
            fails.push((sig.into(), format!("{}: modules saw {:?}, expected {:?}", ctx, got, want)));
            continue;
        }
        if log.iter().any(|e| e.kind == "exec" && e.sender.as_deref() != Some(user.as_str())) {
            fails.push(("module-told-another-sender".into(), format!("{}: log {:?}", ctx, log)));
            continue;
        }
        match (&res, first_fail) {
            (Ok(len), None) if *len == msgs.len() => {}
            (Err(_), Some(_)) => {
                if rawstate::dump(w.app.storage()) != before {
                    fails.push(("failed-transaction-left-state-changes".into(), ctx.clone()));
                }
            }
            (Ok(len), None) => fails.push(("batch-response-count-differs".into(), format!("{}: {} responses", ctx, len))),
            (Ok(_), Some(_)) => fails.push(("failing-module-error-swallowed".into(), ctx.clone())),
            (Err(e), None) => fails.push(("caller-sees-failure-although-module-accepted".into(), format!("{}: {}", ctx, e))),
        }
    }
    fails
}


/// Funds attached to wasm messages are moved by the bank the application was built with — whoever receives them:
/// another contract, a new contract, the sending contract itself, a user's call. Every such transfer shows in the
/// recording bank's log as a Send from the payer to the receiving contract.
pub fn attached_funds_cells(w: &mut RWorld, n0: u64, rep: &mut Report) -> Vec<Fail> {
    let mut fails = vec![];
    let user = w.user.clone();
    let (p0, p1) = (w.puppets[0].clone(), w.puppets[1].clone());
    let tagb = 890_000 + (n0 % 1000) as u32 * 10;
    // (description, top-level message, expected (payer, receiver) of the implicit transfers, in order)
    let leaf = |t: u32| Box::new(Script { tag: t, ..Default::default() });
    let cases: Vec<(&str, Msg, Vec<(String, String)>)> = vec![
        ("a user executes a contract with funds", Msg::Exec { addr: p0.clone(), script: leaf(tagb + 1), funds: vec![coin(2, "ua")] }, vec![(user.clone(), p0.clone())]),
        (
            "a contract executes another contract with funds",
            Msg::Exec { addr: p0.clone(), script: Box::new(Script { tag: tagb + 2, msgs: vec![Sub { id: 1, mode: RMode::Never, payload: Payload::Raw(Binary::default()), msg: Msg::Exec { addr: p1.clone(), script: leaf(tagb + 3), funds: vec![coin(1, "ua")] } }], ..Default::default() }), funds: vec![] },
            vec![(p0.clone(), p1.clone())],
        ),
        (
            "a contract executes itself with funds",
            Msg::Exec { addr: p0.clone(), script: Box::new(Script { tag: tagb + 4, msgs: vec![Sub { id: 1, mode: RMode::Never, payload: Payload::Raw(Binary::default()), msg: Msg::Exec { addr: p0.clone(), script: leaf(tagb + 5), funds: vec![coin(1, "ua")] } }], ..Default::default() }), funds: vec![] },
            vec![(p0.clone(), p0.clone())],
        ),
    ];
    for (what, msg, want) in cases {
        // the emitting contract holds coins
        let _ = w.app.sudo(cw_multi_test::SudoMsg::Bank(BankSudo::Mint { to_address: p0.clone(), amount: vec![coin(5, "ua")] }));
        w.hub.log.borrow_mut().clear();
        let res = catch(|| w.app.execute(Addr::unchecked(user.clone()), to_cosmos::<PMsg>(&msg)).map(|_| ()).map_err(|e| format!("{:#}", e)));
        let _ = take_trace();
        rep.evaluations += 1;
        rep.bump("c17/attached_funds_cells");
        match res {
            Ok(Ok(())) => {}
            other => {
                fails.push(("caller-sees-failure-although-module-accepted".into(), format!("{}: {:?}", what, other)));
                continue;
            }
        }
        let got: Vec<(String, String)> = w
            .hub
            .log
            .borrow()
            .iter()
            .filter(|e| e.module == "bank" && e.kind == "exec")
            .map(|e| (e.sender.clone().unwrap_or_default(), e.payload.split("to_address: \"").nth(1).and_then(|r| r.split('"').next()).unwrap_or("").to_string()))
            .collect();
        rep.add("c17/log_entries_checked", got.len() as u64);
        if got != want {
            fails.push(("attached-funds-not-moved-by-the-configured-bank".into(), format!("{}: the bank saw transfers {:?}, expected {:?}", what, got, want)));
        }
    }
    fails
}

/// Long message lists: one contract response (and one execute_multi batch) carrying 257 to 300 messages of one kind —
/// every one of them reaches its module, in order, exactly once (accepting configuration of that module only).
pub fn bulk_cells(w: &mut RWorld, n0: u64, rep: &mut Report) -> Vec<Fail> {
    let mut fails = vec![];
    let to = w.puppets[2].clone();
    let user = w.user.clone();
    let kinds = [Kind::Custom, Kind::Staking, Kind::Gov, Kind::Any, Kind::Distribution, Kind::Ibc, Kind::Stargate];
    let k = kinds[(n0 as usize) % kinds.len()];
    if w.hub.fails(module_of(k)) {
        return fails;
    }
    let count = 257 + (n0 % 44);
    let msgs: Vec<CosmosMsg<PMsg>> = (0..count).map(|i| make_msg(k, n0 * 1000 + i, &to)).collect();
    let want: Vec<(String, String)> = msgs.iter().map(|m| (module_of(k).to_string(), expected_payload(m))).collect();
    for via_contract in [false, true] {
        if via_contract && (k == Kind::Custom) && false {
            continue;
        }
        w.hub.log.borrow_mut().clear();
        let emitter = w.puppets[0].clone();
        let res = if via_contract {
            let subs: Vec<Sub> = msgs.iter().enumerate().map(|(i, m)| Sub { id: i as u64, mode: RMode::Never, payload: Payload::Raw(Binary::default()), msg: Msg::Opaque(m.clone()) }).collect();
            let script = Script { tag: 880_000 + (n0 % 1000) as u32, msgs: subs, ..Default::default() };
            let top = Msg::Exec { addr: emitter.clone(), script: Box::new(script), funds: vec![] };
            catch(|| w.app.execute(Addr::unchecked(user.clone()), to_cosmos::<PMsg>(&top)).map(|_| ()).map_err(|e| format!("{:#}", e)))
        } else {
            catch(|| w.app.execute_multi(Addr::unchecked(user.clone()), msgs.clone()).map(|_| ()).map_err(|e| format!("{:#}", e)))
        };
        let _ = take_trace();
        rep.evaluations += 1;
        rep.bump(&format!("c17/bulk/{}", if via_contract { "one-response-with-over-256-messages" } else { "one-batch-with-over-256-messages" }));
        let ctx = format!("{} {:?} messages {}", count, k, if via_contract { "in one contract response" } else { "in one execute_multi batch" });
        match res {
            Err(p) => {
                fails.push(("panic-routing-batch".into(), format!("{}: {}", ctx, p)));
                continue;
            }
            Ok(Err(e)) => {
                fails.push(("caller-sees-failure-although-module-accepted".into(), format!("{}: {}", ctx, e)));
                continue;
            }
            Ok(Ok(())) => {}
        }
        // (the carrier message to the emitting contract is logged by the recording wasm module: not one of the messages)
        let got: Vec<(String, String)> = w.hub.log.borrow().iter().filter(|e| e.kind == "exec" && e.module != "wasm").map(|e| (e.module.to_string(), e.payload.clone())).collect();
        rep.add("c17/log_entries_checked", got.len() as u64);
        if got != want {
            let first = got.iter().zip(want.iter()).position(|(a, b)| a != b).unwrap_or(got.len().min(want.len()));
            fails.push(("message-not-delivered-intact".into(), format!("{}: the module saw {} messages, expected {} (first difference at #{})", ctx, got.len(), want.len(), first)));
            continue;
        }
        let sender = if via_contract { emitter.clone() } else { user.clone() };
        if w.hub.log.borrow().iter().any(|e| e.kind == "exec" && e.module != "wasm" && e.sender.as_deref() != Some(sender.as_str())) {
            fails.push(("module-told-another-sender".into(), ctx));
        }
    }
    fails
}


// --- a chain whose custom message and query types are `Empty` (the default of AppBuilder::new) ---------------------

fn ec_instantiate(_d: cosmwasm_std::DepsMut, _e: cosmwasm_std::Env, _i: cosmwasm_std::MessageInfo, _m: Empty) -> cosmwasm_std::StdResult<cosmwasm_std::Response> {
    Ok(cosmwasm_std::Response::new())
}
/// Emits a custom message (plain or with a reply) and issues a custom query.
fn ec_execute(deps: cosmwasm_std::DepsMut, _e: cosmwasm_std::Env, _i: cosmwasm_std::MessageInfo, with_reply: bool) -> cosmwasm_std::StdResult<cosmwasm_std::Response> {
    let _ = deps.querier.query::<String>(&QueryRequest::Custom(Empty {}));
    let m: CosmosMsg = CosmosMsg::Custom(Empty {});
    Ok(if with_reply { cosmwasm_std::Response::new().add_submessage(cosmwasm_std::SubMsg::reply_on_success(m, 5)) } else { cosmwasm_std::Response::new().add_message(m) })
}
fn ec_reply(deps: cosmwasm_std::DepsMut, _e: cosmwasm_std::Env, _r: cosmwasm_std::Reply) -> cosmwasm_std::StdResult<cosmwasm_std::Response> {
    deps.storage.set(b"replied", b"1");
    Ok(cosmwasm_std::Response::new())
}
fn ec_query(_d: cosmwasm_std::Deps, _e: cosmwasm_std::Env, _m: Empty) -> cosmwasm_std::StdResult<Binary> {
    Ok(Binary::default())
}

/// Custom messages and queries on an `Empty`-typed chain reach the custom module the application was built with:
/// from the signer, from a contract (plain and with a reply), accepting and failing.
pub fn empty_chain_cells(rep: &mut Report) -> Vec<Fail> {
    let mut fails = vec![];
    for failing in [false, true] {
        let hub = Hub::default();
        hub.failing.borrow_mut().insert("custom", failing);
        let mut app = AppBuilder::new().with_custom(Rec::<Empty, Empty, Empty>::new("custom", &hub)).build(|_, _, _| {});
        let user = app.api().addr_make("empty-chain-user");
        let code = app.store_code(Box::new(cw_multi_test::ContractWrapper::new(ec_execute, ec_instantiate, ec_query).with_reply(ec_reply)));
        let contract = match app.instantiate_contract(code, user.clone(), &Empty {}, &[], "ec", None) {
            Ok(c) => c,
            Err(e) => {
                fails.push(("empty-chain-setup-failed".into(), e.to_string()));
                continue;
            }
        };
        let verdict = if failing { "failing" } else { "accepting" };
        // from the signer
        hub.log.borrow_mut().clear();
        let before = rawstate::dump(app.storage());
        let r = catch(|| app.execute(user.clone(), CosmosMsg::Custom(Empty {})).map(|_| ()).map_err(|e| e.to_string()));
        rep.evaluations += 1;
        rep.bump(&format!("c17/empty_chain/top/{}", verdict));
        let log = hub.log.borrow().clone();
        match r {
            Err(p) => fails.push(("panic-routing-custom-on-empty-typed-chain".into(), p)),
            Ok(res) => {
                if log.iter().filter(|e| e.module == "custom" && e.kind == "exec" && e.sender.as_deref() == Some(user.as_str())).count() != 1 {
                    fails.push(("message-not-delivered-intact".into(), format!("Custom(Empty) from the signer on an Empty-typed chain ({} module): log {:?}, result {:?}", verdict, log, res)));
                } else if res.is_ok() == failing {
                    fails.push((if failing { "failing-module-error-swallowed".into() } else { "caller-sees-failure-although-module-accepted".into() }, format!("Custom(Empty) from the signer: {:?}", res)));
                } else if failing && rawstate::dump(app.storage()) != before {
                    fails.push(("failed-transaction-left-state-changes".into(), "Custom(Empty) from the signer".into()));
                }
            }
        }
        // query from the signer
        hub.log.borrow_mut().clear();
        let bytes = to_json_vec(&QueryRequest::<Empty>::Custom(Empty {})).unwrap();
        let _ = catch(|| app.raw_query(&bytes));
        rep.evaluations += 1;
        rep.bump(&format!("c17/empty_chain/query/{}", verdict));
        if hub.log.borrow().iter().filter(|e| e.module == "custom" && e.kind == "query").count() != 1 {
            fails.push(("query-not-delivered-intact".into(), format!("Custom(Empty) query on an Empty-typed chain ({} module): log {:?}", verdict, hub.log.borrow())));
        }
        // from a contract: plain message and sub-message with a reply (the contract also queries once)
        for with_reply in [false, true] {
            hub.log.borrow_mut().clear();
            let before = rawstate::dump(app.storage());
            let r = catch(|| app.execute_contract(user.clone(), contract.clone(), &with_reply, &[]).map(|_| ()).map_err(|e| e.to_string()));
            rep.evaluations += 1;
            rep.bump(&format!("c17/empty_chain/contract{}/{}", if with_reply { "-with-reply" } else { "" }, verdict));
            let log = hub.log.borrow().clone();
            match r {
                Err(p) => fails.push(("panic-routing-custom-on-empty-typed-chain".into(), p)),
                Ok(res) => {
                    let execs = log.iter().filter(|e| e.module == "custom" && e.kind == "exec" && e.sender.as_deref() == Some(contract.as_str())).count();
                    let queries = log.iter().filter(|e| e.module == "custom" && e.kind == "query").count();
                    if execs != 1 || queries != 1 {
                        fails.push(("message-not-delivered-intact".into(), format!("Custom(Empty) from a contract on an Empty-typed chain ({} module, reply {}): log {:?}, result {:?}", verdict, with_reply, log, res)));
                    } else if res.is_ok() == failing {
                        fails.push((if failing { "failing-module-error-swallowed".into() } else { "caller-sees-failure-although-module-accepted".into() }, format!("Custom(Empty) from a contract: {:?}", res)));
                    } else if failing && rawstate::dump(app.storage()) != before {
                        fails.push(("failed-transaction-left-state-changes".into(), "Custom(Empty) from a contract".into()));
                    } else if !failing && with_reply && app.contract_storage(&contract).get(b"replied").is_none() {
                        fails.push(("module-response-not-delivered-to-reply".into(), "Custom(Empty) sub-message with reply_on success on an Empty-typed chain".into()));
                    }
                }
            }
        }
    }
    fails
}
