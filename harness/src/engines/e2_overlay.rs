//! E2a — overlay engine (C06): the write-cache (through the `verif` hook) against `BTreeMap`
//! models, one per cache level, with every get/range compared after every operation.

use crate::core::*;
use crate::rng::Rng;
use crate::engines::e2_views::LooseStore;
use cosmwasm_std::{Order, Storage};
use cw_multi_test::verif_hooks::{transactional, Overlay};
use serde::{Deserialize, Serialize};
use serde_json::json;
use std::collections::BTreeMap;

type Map = BTreeMap<Vec<u8>, Vec<u8>>;

#[derive(Clone, Debug, Serialize, Deserialize)]
pub enum Op {
    Set(String, String),
    Remove(String),
    /// A nested cache over the current level. `helper`: drive it through `transactional(..)`.
    Child { helper: bool, ops: Vec<Op>, commit: bool },
    /// one read of one key (what the overlay answers may depend on what was read before)
    Get(String),
    /// an iteration that is advanced `take` records and then dropped
    Scan { start: Option<String>, end: Option<String>, desc: bool, take: u32 },
}

#[derive(Clone, Debug, Serialize, Deserialize)]
pub struct Case {
    pub base: Vec<(String, String)>,
    pub root: Op, // always Op::Child
    /// keys used as get probes and as range bounds (hex)
    pub universe: Vec<String>,
    /// how many bound pairs to sample after each op (0 = all pairs)
    pub sample_pairs: u32,
    pub check_seed: u64,
    /// no sweep of reads between the operations (only after the last one of a level): the reads are the program's own
    #[serde(default)]
    pub sparse: bool,
}

pub struct Stats<'a> {
    pub rep: &'a mut Report,
    pub rng: Rng,
    pub universe: Vec<Vec<u8>>,
    pub sample_pairs: u32,
    pub failed: Option<(String, String)>, // (signature, detail)
    pub max_depth: usize,
    pub sparse: bool,
}

fn dump(s: &dyn Storage) -> Vec<(Vec<u8>, Vec<u8>)> {
    s.range(None, None, Order::Ascending).collect()
}

fn model_range(m: &Map, start: Option<&[u8]>, end: Option<&[u8]>, order: Order) -> Vec<(Vec<u8>, Vec<u8>)> {
    let mut v: Vec<(Vec<u8>, Vec<u8>)> = m
        .iter()
        .filter(|(k, _)| start.map_or(true, |s| k.as_slice() >= s) && end.map_or(true, |e| k.as_slice() < e))
        .map(|(k, v)| (k.clone(), v.clone()))
        .collect();
    if order == Order::Descending {
        v.reverse();
    }
    v
}

/// Merge-shape fingerprint: what the merge iterator has to consume for this query.
fn shape(delta: &BTreeMap<Vec<u8>, Option<Vec<u8>>>, base: &Map, start: Option<&[u8]>, end: Option<&[u8]>, order: Order) -> String {
    let inr = |k: &[u8]| start.map_or(true, |s| k >= s) && end.map_or(true, |e| k < e);
    let mut keys: Vec<&Vec<u8>> = delta.keys().chain(base.keys()).filter(|k| inr(k)).collect();
    keys.sort();
    keys.dedup();
    let mut s = String::with_capacity(keys.len() + 1);
    s.push(if order == Order::Ascending { 'a' } else { 'd' });
    for k in keys {
        let c = match (delta.get(k), base.contains_key(k)) {
            (Some(Some(_)), false) => 'S',
            (Some(None), false) => 'D',
            (None, true) => 'B',
            (Some(Some(_)), true) => 'X',
            (Some(None), true) => 'Y',
            (None, false) => unreachable!(),
        };
        s.push(c);
    }
    s
}

impl<'a> Stats<'a> {
    fn fail(&mut self, sig: &str, detail: String) {
        if self.failed.is_none() {
            self.failed = Some((sig.to_string(), detail));
        }
    }

    /// Compares `store` with `model` on gets and on range queries.
    fn compare(&mut self, store: &dyn Storage, model: &Map, delta: &BTreeMap<Vec<u8>, Option<Vec<u8>>>, base: &Map, full: bool, what: &str) {
        if self.failed.is_some() {
            return;
        }
        // gets
        for k in self.universe.clone().iter() {
            let got = store.get(k);
            let want = model.get(k).cloned();
            self.rep.bump("c06/get_compared");
            if got != want {
                self.fail(
                    "overlay-get-differs-from-ordered-map",
                    format!("{}: get({}) = {:?}, model {:?}", what, hex(k), got.map(|v| hex(&v)), want.map(|v| hex(&v))),
                );
                return;
            }
        }
        // ranges
        let n = self.universe.len() + 1; // index n-1 = None
        let bound = |u: &Vec<Vec<u8>>, i: usize| -> Option<Vec<u8>> { if i == u.len() { None } else { Some(u[i].clone()) } };
        let mut pairs: Vec<(usize, usize)> = vec![];
        if full || self.sample_pairs == 0 {
            for i in 0..n {
                for j in 0..n {
                    pairs.push((i, j));
                }
            }
        } else {
            pairs.push((n - 1, n - 1));
            for _ in 0..self.sample_pairs {
                pairs.push((self.rng.usize_below(n), self.rng.usize_below(n)));
            }
        }
        for (i, j) in pairs {
            let s = bound(&self.universe, i);
            let e = bound(&self.universe, j);
            for order in [Order::Ascending, Order::Descending] {
                let got = match catch(|| store.range(s.as_deref(), e.as_deref(), order).collect::<Vec<_>>()) {
                    Ok(v) => v,
                    Err(p) => {
                        self.fail(
                            "overlay-range-panics",
                            format!("{}: range({:?},{:?},{:?}) panicked: {}", what, s.as_ref().map(|x| hex(x)), e.as_ref().map(|x| hex(x)), order, p),
                        );
                        return;
                    }
                };
                let want = model_range(model, s.as_deref(), e.as_deref(), order);
                self.rep.bump("c06/range_compared");
                // model-free: strictly monotone keys, each at most once
                for w in got.windows(2) {
                    let ok = if order == Order::Ascending { w[0].0 < w[1].0 } else { w[0].0 > w[1].0 };
                    if !ok {
                        self.fail(
                            "overlay-range-not-strictly-ordered",
                            format!("{}: range({:?},{:?},{:?}) yields {} then {}", what, s.as_ref().map(|x| hex(x)), e.as_ref().map(|x| hex(x)), order, hex(&w[0].0), hex(&w[1].0)),
                        );
                        return;
                    }
                }
                if got != want {
                    self.fail(
                        "overlay-range-differs-from-ordered-map",
                        format!(
                            "{}: range({:?},{:?},{:?}) = {:?}, model {:?}",
                            what,
                            s.as_ref().map(|x| hex(x)),
                            e.as_ref().map(|x| hex(x)),
                            order,
                            got.iter().map(|(k, v)| format!("{}={}", hex(k), hex(v))).collect::<Vec<_>>(),
                            want.iter().map(|(k, v)| format!("{}={}", hex(k), hex(v))).collect::<Vec<_>>()
                        ),
                    );
                    return;
                }
                // the derived iterators must be projections of the same sequence
                if self.rep.count("c06/range_compared") % 7 == 0 {
                    let ks: Vec<Vec<u8>> = store.range_keys(s.as_deref(), e.as_deref(), order).collect();
                    let vs: Vec<Vec<u8>> = store.range_values(s.as_deref(), e.as_deref(), order).collect();
                    self.rep.bump("c06/range_keys_values_compared");
                    if ks != want.iter().map(|x| x.0.clone()).collect::<Vec<_>>() || vs != want.iter().map(|x| x.1.clone()).collect::<Vec<_>>() {
                        self.fail("overlay-range-keys-or-values-differ-from-ordered-map", format!("{}: range_keys/range_values({:?},{:?},{:?}) differ from the model", what, s.as_ref().map(|x| hex(x)), e.as_ref().map(|x| hex(x)), order));
                        return;
                    }
                }
                // the returned iterator is an ordinary iterator: advancing it other than by next() (nth, skip, step_by,
                // last, count) walks the same sequence
                if self.rep.count("c06/range_compared") % 5 == 1 && !want.is_empty() {
                    let n = (self.rep.count("c06/range_compared") as usize / 5) % (want.len() + 1);
                    let nth = store.range(s.as_deref(), e.as_deref(), order).nth(n);
                    let skipped: Vec<(Vec<u8>, Vec<u8>)> = store.range(s.as_deref(), e.as_deref(), order).skip(n).collect();
                    let stepped: Vec<(Vec<u8>, Vec<u8>)> = store.range(s.as_deref(), e.as_deref(), order).step_by(2).collect();
                    let mut it = store.range(s.as_deref(), e.as_deref(), order);
                    let first = it.next();
                    let then_nth = it.nth(1);
                    let rest: Vec<(Vec<u8>, Vec<u8>)> = it.collect();
                    let last = store.range(s.as_deref(), e.as_deref(), order).last();
                    let count = store.range(s.as_deref(), e.as_deref(), order).count();
                    self.rep.bump("c06/iterator_adaptors_compared");
                    let ok = nth == want.get(n).cloned()
                        && skipped == want.iter().skip(n).cloned().collect::<Vec<_>>()
                        && stepped == want.iter().step_by(2).cloned().collect::<Vec<_>>()
                        && first == want.first().cloned()
                        && then_nth == want.get(2).cloned()
                        && rest == want.iter().skip(3).cloned().collect::<Vec<_>>()
                        && last == want.last().cloned()
                        && count == want.len();
                    if !ok {
                        self.fail("overlay-range-iterator-advanced-by-nth-skip-or-step-differs", format!("{}: range({:?},{:?},{:?}) advanced with nth({}) / skip / step_by / last / count does not walk {:?}", what, s.as_ref().map(|x| hex(x)), e.as_ref().map(|x| hex(x)), order, n, want.iter().map(|(k, v)| format!("{}={}", hex(k), hex(v))).collect::<Vec<_>>()));
                        return;
                    }
                }
                let sh = shape(delta, base, s.as_deref(), e.as_deref(), order);
                if sh.len() > 2 {
                    self.rep.fingerprints.insert(fp_str(&sh));
                }
                if s.is_some() && e.is_some() && s >= e {
                    self.rep.bump("c06/inverted_or_equal_bounds");
                }
            }
        }
    }
}

/// Runs one cache level over `base` (whose expected content is `base_model`).
/// Returns the expected content of `base` afterwards.
fn level(base: &mut dyn Storage, base_model: &Map, ops: &[Op], commit: bool, helper: bool, depth: usize, st: &mut Stats) -> Map {
    st.max_depth = st.max_depth.max(depth);
    st.rep.bump(&format!("c06/levels_at_depth_{}", depth));
    let mut model = base_model.clone();
    let mut delta: BTreeMap<Vec<u8>, Option<Vec<u8>>> = BTreeMap::new();
    let result_model;
    if helper {
        // through transactional(): commit on Ok, discard on Err; `read` is the pre-state view
        let r = transactional(base, |cache, read| {
            run_ops(cache, Some(read), base_model, &mut model, &mut delta, ops, depth, st);
            if commit {
                Ok(())
            } else {
                Err(anyhow::anyhow!("discard"))
            }
        });
        st.rep.bump(if commit { "c06/helper_commit" } else { "c06/helper_discard" });
        if r.is_ok() != commit && st.failed.is_none() {
            st.fail("transactional-result-mismatch", format!("transactional returned {:?} for commit={}", r.is_ok(), commit));
        }
        result_model = if commit { model } else { base_model.clone() };
    } else {
        let log = {
            let mut ov = Overlay::new(&*base);
            run_ops(&mut ov, None, base_model, &mut model, &mut delta, ops, depth, st);
            // the base must not have changed while the cache was alive
            if commit {
                Some(ov.prepare())
            } else {
                None
            }
        };
        if st.failed.is_none() && dump(base) != base_model.clone().into_iter().collect::<Vec<_>>() {
            st.fail("base-modified-while-cache-alive", format!("depth {}: base differs from its model before commit/discard", depth));
        }
        st.rep.bump("c06/base_unchanged_checks");
        match log {
            Some(log) => {
                log.commit(base);
                st.rep.bump("c06/commit");
                result_model = model;
            }
            None => {
                st.rep.bump("c06/discard");
                result_model = base_model.clone();
            }
        }
    }
    if st.failed.is_none() {
        let got = dump(base);
        let want: Vec<_> = result_model.clone().into_iter().collect();
        st.rep.bump("c06/after_commit_or_discard_compared");
        if got != want {
            st.fail(
                if commit { "base-after-commit-differs-from-ordered-map" } else { "base-changed-by-discarded-cache" },
                format!(
                    "depth {} commit={} helper={}: base = {:?}, model {:?}",
                    depth,
                    commit,
                    helper,
                    got.iter().map(|(k, v)| format!("{}={}", hex(k), hex(v))).collect::<Vec<_>>(),
                    want.iter().map(|(k, v)| format!("{}={}", hex(k), hex(v))).collect::<Vec<_>>()
                ),
            );
        }
    }
    result_model
}

#[allow(clippy::too_many_arguments)]
fn run_ops(
    cache: &mut dyn Storage,
    read: Option<&dyn Storage>,
    base_model: &Map,
    model: &mut Map,
    delta: &mut BTreeMap<Vec<u8>, Option<Vec<u8>>>,
    ops: &[Op],
    depth: usize,
    st: &mut Stats,
) {
    if !st.sparse {
        st.compare(cache, model, delta, base_model, false, &format!("depth {} fresh cache", depth));
    }
    for (i, op) in ops.iter().enumerate() {
        if st.failed.is_some() {
            return;
        }
        match op {
            Op::Set(k, v) => {
                let (k, v) = (unhex(k), unhex(v));
                st.rep.bump(match (delta.get(&k), model.contains_key(&k)) {
                    (Some(None), _) => "c06/op_set_after_delete",
                    (_, true) => "c06/op_overwrite",
                    _ => "c06/op_set_new",
                });
                cache.set(&k, &v);
                model.insert(k.clone(), v.clone());
                delta.insert(k, Some(v));
            }
            Op::Remove(k) => {
                let k = unhex(k);
                st.rep.bump(if model.contains_key(&k) { "c06/op_remove_present" } else { "c06/op_remove_absent" });
                cache.remove(&k);
                model.remove(&k);
                delta.insert(k, None);
            }
            Op::Child { helper, ops, commit } => {
                let m = level(cache, &model.clone(), ops, *commit, *helper, depth + 1, st);
                // from this level's point of view the committed child's writes are its own deltas
                for (k, v) in &m {
                    if model.get(k) != Some(v) {
                        delta.insert(k.clone(), Some(v.clone()));
                    }
                }
                for k in model.keys() {
                    if !m.contains_key(k) {
                        delta.insert(k.clone(), None);
                    }
                }
                *model = m;
            }
            Op::Get(k) => {
                let k = unhex(k);
                let got = cache.get(&k);
                st.rep.bump("c06/op_single_get");
                if got.as_ref() != model.get(&k) {
                    st.fail("overlay-get-differs-from-ordered-map", format!("depth {} op #{}: get({}) = {:?}, model {:?} (a single read between writes, no sweep of reads in between)", depth, i, hex(&k), got.map(|v| hex(&v)), model.get(&k).map(|v| hex(v))));
                }
            }
            Op::Scan { start, end, desc, take } => {
                let (sb, eb) = (start.as_ref().map(|x| unhex(x)), end.as_ref().map(|x| unhex(x)));
                let order = if *desc { Order::Descending } else { Order::Ascending };
                let got: Vec<(Vec<u8>, Vec<u8>)> = cache.range(sb.as_deref(), eb.as_deref(), order).take(*take as usize).collect();
                let want: Vec<(Vec<u8>, Vec<u8>)> = model_range(model, sb.as_deref(), eb.as_deref(), order).into_iter().take(*take as usize).collect();
                st.rep.bump("c06/op_partial_scan");
                if got != want {
                    st.fail("overlay-range-differs-from-ordered-map", format!("depth {} op #{}: the first {} records of range({:?},{:?},{:?}) = {:?}, model {:?}", depth, i, take, start, end, order, got.iter().map(|(k, v)| format!("{}={}", hex(k), hex(v))).collect::<Vec<_>>(), want.iter().map(|(k, v)| format!("{}={}", hex(k), hex(v))).collect::<Vec<_>>()));
                }
            }
        }
        st.rep.evaluations += 1;
        let last = i + 1 == ops.len();
        if st.sparse && !last {
            continue;
        }
        st.compare(cache, model, delta, base_model, last && depth <= 2, &format!("depth {} after op #{}", depth, i));
        if let Some(read) = read {
            // the helper's read view must still show the pre-state
            if st.failed.is_none() {
                let got = dump(read);
                st.rep.bump("c06/helper_read_view_compared");
                if got != base_model.clone().into_iter().collect::<Vec<_>>() {
                    st.fail("transactional-read-view-not-prestate", format!("depth {}: read view differs from the pre-state", depth));
                }
            }
        }
    }
}

pub fn run_case(case: &Case, rep: &mut Report) -> Option<(String, String)> {
    // the base is a user-supplied ordered map that also keeps empty values (cosmwasm_std's MemoryStorage rejects them)
    let mut base = LooseStore::default();
    let mut base_model = Map::new();
    for (k, v) in &case.base {
        base.set(&unhex(k), &unhex(v));
        base_model.insert(unhex(k), unhex(v));
    }
    let mut st = Stats {
        rep,
        rng: Rng::new(case.check_seed),
        universe: case.universe.iter().map(|k| unhex(k)).collect(),
        sample_pairs: case.sample_pairs,
        sparse: case.sparse,
        failed: None,
        max_depth: 0,
    };
    st.universe.sort();
    st.universe.dedup();
    if let Op::Child { helper, ops, commit } = &case.root {
        let r = catch(|| {
            level(&mut base, &base_model, ops, *commit, *helper, 1, &mut st);
        });
        if let Err(p) = r {
            if panic_in_repo(&p) {
                st.fail("overlay-panics", format!("panic: {}", p));
            } else {
                st.rep.inconclusive.push(format!("harness panic in C06 engine: {}", p));
            }
        }
    }
    let d = st.max_depth;
    let failed = st.failed.take();
    rep.bump(&format!("c06/cases_max_depth_{}", d));
    failed
}

// ---------------------------------------------------------------------------------------------
// generators
// ---------------------------------------------------------------------------------------------

fn gen_key(rng: &mut Rng) -> Vec<u8> {
    const ALPHA: [u8; 5] = [0x00, 0x01, 0x61, 0x62, 0xFF];
    // now and then a key of more than 64 KiB
    if rng.chance(1, 700) {
        let b = *rng.pick(&ALPHA);
        return vec![b; *rng.pick(&[65_536usize, 65_537, 70_000])];
    }
    // now and then keys that agree on 7 to 17 bytes and differ behind them (in bytes on either side of 0x80)
    if rng.chance(1, 6) {
        let common = *rng.pick(&[7usize, 8, 9, 15, 16, 17]);
        let mut k = vec![0x70u8; common];
        for _ in 0..rng.range(1, 2) {
            k.push(*rng.pick(&[0x00u8, 0x01, 0x7F, 0x80, 0xFF]));
        }
        return k;
    }
    let len = match rng.below(10) {
        0 => 0,
        1..=3 => 1,
        4..=7 => 2,
        _ => 3,
    };
    (0..len).map(|_| *rng.pick(&ALPHA)).collect()
}

fn gen_ops(rng: &mut Rng, depth_left: usize, counter: &mut u32, n: usize, keys: &[Vec<u8>]) -> Vec<Op> {
    let mut ops = vec![];
    for _ in 0..n {
        let r = rng.below(100);
        let k = if rng.chance(3, 4) && !keys.is_empty() { rng.pick(keys).clone() } else { gen_key(rng) };
        // a read, a write to the same key, the same read again (nothing else in between)
        if rng.chance(1, 8) {
            let read = if rng.chance(2, 3) { Op::Get(hex(&k)) } else { Op::Scan { start: if rng.chance(1, 2) { Some(hex(&k)) } else { None }, end: None, desc: false, take: rng.range(1, 3) as u32 } };
            ops.push(read.clone());
            if rng.chance(1, 2) {
                ops.push(Op::Remove(hex(&k)));
            } else {
                *counter += 1;
                ops.push(Op::Set(hex(&k), hex(format!("w{}", counter).as_bytes())));
            }
            ops.push(read);
            continue;
        }
        // single reads and partial scans between the writes
        if rng.chance(1, 4) {
            if rng.chance(2, 3) {
                ops.push(Op::Get(hex(&k)));
            } else {
                let other = if !keys.is_empty() { rng.pick(keys).clone() } else { gen_key(rng) };
                let (start, end) = match rng.below(4) {
                    0 => (None, None),
                    1 => (Some(hex(&k)), None),
                    2 => (None, Some(hex(&k))),
                    _ => (Some(hex(&k.clone().min(other.clone()))), Some(hex(&k.clone().max(other)))),
                };
                ops.push(Op::Scan { start, end, desc: rng.chance(1, 2), take: rng.range(0, 3) as u32 });
            }
            continue;
        }
        if r < 50 {
            *counter += 1;
            // now and then the empty value: a record like any other
            ops.push(Op::Set(hex(&k), if rng.chance(1, 15) { String::new() } else { hex(format!("v{}", counter).as_bytes()) }));
        } else if r < 80 {
            ops.push(Op::Remove(hex(&k)));
        } else if depth_left > 0 {
            let m = rng.range(0, 8) as usize;
            let inner = gen_ops(rng, depth_left - 1, counter, m, keys);
            ops.push(Op::Child { helper: rng.chance(1, 3), ops: inner, commit: rng.chance(2, 3) });
        } else {
            ops.push(Op::Remove(hex(&k)));
        }
    }
    ops
}

pub fn gen_random(rng: &mut Rng, max_depth: usize) -> Case {
    // a small working set of keys so that overlay and base keys interleave and collide
    let nkeys = rng.range(2, 10) as usize;
    let mut keys: Vec<Vec<u8>> = (0..nkeys).map(|_| gen_key(rng)).collect();
    keys.sort();
    keys.dedup();
    let mut counter = 0u32;
    let nbase = rng.range(0, 12) as usize;
    let mut base = vec![];
    for _ in 0..nbase {
        let k = if rng.chance(3, 4) { rng.pick(&keys).clone() } else { gen_key(rng) };
        counter += 1;
        base.push((hex(&k), if rng.chance(1, 15) { String::new() } else { hex(format!("b{}", counter).as_bytes()) }));
    }
    // now and then a long program: hundreds of operations logged in one layer
    let n = if rng.chance(1, 60) { rng.range(130, 220) as usize } else { rng.range(1, 30) as usize };
    let mut ops = gen_ops(rng, max_depth - 1, &mut counter, n, &keys);
    // now and then a tower: dozens of caches nested in one another (a sub-message chain as deep as contracts can make
    // it), each writing and removing a little before and after its child
    if rng.chance(1, 400) {
        let height = rng.range(20, 48) as usize;
        let mut inner: Vec<Op> = vec![];
        for lvl in 0..height {
            let mut here = vec![];
            for _ in 0..rng.range(0, 3) {
                counter += 1;
                let k = rng.pick(&keys).clone();
                here.push(if rng.chance(2, 3) { Op::Set(hex(&k), hex(format!("t{}", counter).as_bytes())) } else { Op::Remove(hex(&k)) });
            }
            here.push(Op::Child { helper: rng.chance(1, 3), ops: inner, commit: lvl % 7 != 3 || rng.chance(1, 2) });
            if rng.chance(1, 2) {
                let k = rng.pick(&keys).clone();
                here.push(Op::Remove(hex(&k)));
            }
            inner = here;
        }
        ops.extend(inner);
    }
    // now and then a wide layer: several hundred distinct keys written in one cache (over a base that holds some
    // records of its own), with a removal of a base record repeated after every write — whatever the number of
    // distinct entries in the layer (255, 256, 257, 512, ...), the removed records stay removed
    let mut wide_layer = false;
    if rng.chance(1, 300) {
        wide_layer = true;
        let n = rng.range(260, 560) as usize;
        let wide: Vec<Vec<u8>> = (0..n).map(|i| vec![0x10 + (i >> 8) as u8, i as u8]).collect();
        let victims: Vec<Vec<u8>> = (0..3).map(|i| vec![0x0F, i as u8]).collect();
        for v in &victims {
            counter += 1;
            base.push((hex(v), hex(format!("b{}", counter).as_bytes())));
        }
        let mut w = vec![];
        for (i, k) in wide.iter().enumerate() {
            counter += 1;
            w.push(Op::Set(hex(k), hex(format!("w{}", counter).as_bytes())));
            w.push(Op::Remove(hex(&victims[i % 3])));
            if i % 4 == 0 {
                w.push(Op::Get(hex(&victims[(i + 1) % 3])));
            }
            if i % 64 == 63 {
                w.push(Op::Scan { start: None, end: None, desc: false, take: 2 });
                w.push(Op::Scan { start: Some(hex(&wide[i - 40])), end: None, desc: i % 128 == 63, take: 3 });
            }
        }
        keys.extend(wide.iter().step_by(37).cloned());
        ops = vec![Op::Child { helper: false, ops: w, commit: rng.chance(2, 3) }];
    }
    // universe: working set, neighbours (prefix, extension) and a few random keys
    let mut uni: Vec<Vec<u8>> = keys.clone();
    for k in &keys {
        let mut e = k.clone();
        e.push(0x00);
        uni.push(e);
        if !k.is_empty() {
            uni.push(k[..k.len() - 1].to_vec());
        }
    }
    uni.push(vec![]);
    uni.push(vec![0xFF, 0xFF, 0xFF, 0xFF]);
    for (k, _) in &base {
        uni.push(unhex(k));
    }
    fn collect(ops: &[Op], uni: &mut Vec<Vec<u8>>) {
        for o in ops {
            match o {
                Op::Set(k, _) | Op::Remove(k) | Op::Get(k) => uni.push(unhex(k)),
                Op::Scan { .. } => {}
                Op::Child { ops, .. } => collect(ops, uni),
            }
        }
    }
    if wide_layer {
        // (probing with every one of several hundred keys as a bound would take minutes: the working set, which got a
        // sample of them, and the removed base records do)
        uni.extend((0..3).map(|i| vec![0x0F, i as u8]));
    } else {
        collect(&ops, &mut uni);
    }
    uni.sort();
    uni.dedup();
    Case {
        base,
        root: Op::Child { helper: rng.chance(1, 4), ops, commit: rng.chance(2, 3) },
        universe: uni.iter().map(|k| hex(k)).collect(),
        sample_pairs: 12,
        // (a wide layer is judged by its own reads: a sweep over hundreds of keys after each of a thousand operations
        // would take minutes)
        sparse: wide_layer || rng.chance(1, 2),
        check_seed: rng.next_u64(),
    }
}

/// Exhaustive small scope: all base subsets of `base_keys`, all op sequences of exactly `len`
/// operations (set/remove over `op_keys`), split into an outer and an inner (child) part at
/// every position, each level committing or discarding.
pub fn exhaustive(rep: &mut Report, len: usize, op_keys: &[&[u8]], base_keys: &[&[u8]], universe: &[&[u8]], worker: usize, workers: usize, deadline: std::time::Instant) -> Vec<(Case, String, String)> {
    let mut failures = vec![];
    let nops = op_keys.len() * 2;
    let total = nops.pow(len as u32);
    let uni: Vec<String> = universe.iter().map(|k| hex(k)).collect();
    let mut idx = 0usize;
    let mut complete = true;
    'outer: for bmask in 0..(1usize << base_keys.len()) {
        let base: Vec<(String, String)> = base_keys
            .iter()
            .enumerate()
            .filter(|(i, _)| bmask >> i & 1 == 1)
            .map(|(i, k)| (hex(k), hex(format!("b{}", i).as_bytes())))
            .collect();
        for code in 0..total {
            idx += 1;
            if idx % workers != worker {
                continue;
            }
            if idx % 256 == 0 && std::time::Instant::now() >= deadline {
                complete = false;
                break 'outer;
            }
            let mut c = code;
            let mut ops = vec![];
            for j in 0..len {
                let o = c % nops;
                c /= nops;
                let k = hex(op_keys[o / 2]);
                ops.push(if o % 2 == 0 { Op::Set(k, hex(format!("v{}", j).as_bytes())) } else { Op::Remove(k) });
            }
            // (1) the enumerated space: every (base subset, op sequence) on a single cache level,
            //     compared after every op, then committed
            // (2) one nested variant per case, selected by the case index: where the child cache
            //     starts and which levels commit
            let variant = (code / 7 + bmask) % (len * 4);
            let split = variant / 4;
            let (outer, inner) = ops.split_at(split);
            let mut o = outer.to_vec();
            o.push(Op::Child { helper: (code + bmask) % 3 == 0, ops: inner.to_vec(), commit: variant % 2 == 0 });
            let nested = Op::Child { helper: false, ops: o, commit: (variant / 2) % 2 == 0 };
            let flat = Op::Child { helper: (code + bmask) % 5 == 0, ops, commit: true };
            for root in [flat, nested] {
                let case = Case { base: base.clone(), root, universe: uni.clone(), sample_pairs: 0, check_seed: 0, sparse: false };
                rep.bump("c06/exhaustive_cases");
                if let Some((sig, detail)) = run_case(&case, rep) {
                    failures.push((case, sig, detail));
                    if failures.len() >= 3 {
                        complete = false;
                        break 'outer;
                    }
                }
            }
        }
    }
    rep.exhaustive = Some(complete && failures.is_empty());
    failures
}

pub fn case_json(c: &Case) -> serde_json::Value {
    json!(c)
}
