//! E4 — staking engine (C14, C15, C16): random staking histories against an exact-rational model
//! (DESIGN.md Appendix B), a structural monitor over the raw `staking` namespace, a panic
//! monitor, and a split-time twin instance for path independence of rewards.

use crate::core::*;
use crate::model::bank::Ledger;
use crate::model::ratio::Q;
use crate::rawstate;
use crate::rng::Rng;
use cosmwasm_std::{
    coin, to_json_binary, Addr, AllDelegationsResponse, Binary, BlockInfo, CosmosMsg, Decimal, DelegationResponse, Deps, DepsMut,
    DistributionMsg, Empty, Env, MessageInfo, QueryRequest, Response, StakingMsg, StakingQuery, StdResult, Timestamp, Validator, WasmMsg,
};
use cw_multi_test::{App, BankSudo, ContractWrapper, Executor, IntoAddr, StakingInfo, StakingSudo, SudoMsg};
use serde::{Deserialize, Serialize};
use std::collections::{BTreeMap, BTreeSet, VecDeque};
use std::str::FromStr;

pub const POOL: &str = "staking_module";
pub const DENOM: &str = "TOKEN";
pub const YEAR: u128 = 60 * 60 * 24 * 365;
pub const NANOS: u64 = 1_000_000_000;

#[derive(Clone, Debug, Serialize, Deserialize)]
pub struct Params {
    pub apr: String,
    pub unbonding: u64,
    pub commissions: Vec<String>,
    /// per validator: maximum commission and maximum daily change (informational fields of the validator record;
    /// rewards are governed by the commission itself, whatever these say)
    #[serde(default)]
    pub max_commissions: Vec<(String, String)>,
    /// validator naming scheme (0: validator0, validator1, ...; 1: validator1, validator10, validator100;
    /// 2: Validator, validator, VALIDATOR, validatoR)
    #[serde(default)]
    pub naming: u8,
    /// the bonded denomination (staking parameter, fixed at setup)
    #[serde(default = "default_denom")]
    pub denom: String,
    /// the staking module is set up twice: first with other parameters (bonded denomination, unbonding time, annual
    /// rate), which are queried, then with the real ones — the parameters supplied last are the chain's parameters
    #[serde(default)]
    pub set_up_twice: bool,
}

/// The same denomination spelled in the other letter case: another denomination altogether.
pub fn other_case(denom: &str) -> String {
    if denom.chars().any(|c| c.is_uppercase()) {
        denom.to_lowercase()
    } else {
        denom.to_uppercase()
    }
}

fn default_denom() -> String {
    DENOM.to_string()
}

#[derive(Clone, Debug, Serialize, Deserialize)]
pub enum SOp {
    Delegate { d: usize, v: String, amount: u128, denom: String },
    Undelegate { d: usize, v: String, amount: u128, denom: String },
    Redelegate { d: usize, src: String, dst: String, amount: u128, denom: String },
    Withdraw { d: usize, v: String },
    SetWithdraw { d: usize, to: String },
    Slash { v: String, p: String },
    /// the staking module is set up again with another unbonding time (same denomination, same rate): pending
    /// unbondings keep their payout times, later ones use the new period
    Reconfigure { unbonding: u64 },
    /// advance block time by `nanos`; the twin instance advances in `pieces` (nanoseconds, summing to `nanos`)
    /// and lets an unrelated delegator trigger reward updates in between
    Advance {
        nanos: u64,
        pieces: Vec<u64>,
        /// use App::set_block (a complete new BlockInfo) instead of App::update_block
        #[serde(default)]
        set: bool,
    },
}

#[derive(Clone, Debug, Serialize, Deserialize)]
pub struct Case {
    pub params: Params,
    pub ops: Vec<SOp>,
}

// --- relay contract (the contract delegator) -----------------------------------------------

#[derive(Clone, Debug, Serialize, Deserialize)]
pub struct RelayExec {
    pub msgs: Vec<CosmosMsg>,
}
fn relay_instantiate(_d: DepsMut, _e: Env, _i: MessageInfo, _m: Empty) -> StdResult<Response> {
    Ok(Response::new())
}
fn relay_execute(_d: DepsMut, _e: Env, _i: MessageInfo, m: RelayExec) -> StdResult<Response> {
    Ok(Response::new().add_messages(m.msgs))
}
fn relay_query(_d: Deps, _e: Env, _m: Empty) -> StdResult<Binary> {
    to_json_binary(&Empty {})
}

// --- real instance ---------------------------------------------------------------------------

pub struct Inst {
    pub app: App,
    pub delegators: Vec<String>, // [user, user, relay contract]
    pub operator: String,        // the user who drives the relay contract
    pub noise: String,           // unrelated delegator used only by the split-time twin
    pub validators: Vec<String>,
    pub denom: String,
    pub apr: String,
}

pub fn validators(p: &Params) -> Vec<String> {
    (0..p.commissions.len()).map(|i| validator_name(p, i)).collect()
}

/// Naming scheme 1 makes every validator's address a proper prefix of the next one's.
pub fn validator_name(p: &Params, i: usize) -> String {
    if p.naming == 1 {
        format!("validator1{}", "0".repeat(i))
    } else if p.naming == 2 {
        // names that differ in letter case only (validator addresses are opaque strings, each its own validator)
        let n = i / 4;
        format!("{}{}", ["Validator", "validator", "VALIDATOR", "validatoR"][i % 4], if n == 0 { String::new() } else { n.to_string() })
    } else {
        format!("validator{}", i)
    }
}

pub const START_BALANCE: u128 = 100_000_000;

impl Inst {
    pub fn new(p: &Params) -> Inst {
        let mut app = App::default();
        let block = app.block_info();
        app.set_block(BlockInfo { height: 1, time: Timestamp::from_seconds(1_000_000), chain_id: block.chain_id });
        let block = app.block_info();
        if p.set_up_twice {
            app.init_modules(|router, _api, storage| {
                router.staking.setup(storage, StakingInfo { bonded_denom: "decoy".into(), unbonding_time: 7, apr: Decimal::from_str("0.9").unwrap() }).unwrap();
            });
            // the first parameters are looked at before they are replaced
            let _: Result<cosmwasm_std::BondedDenomResponse, _> = app.wrap().query(&QueryRequest::Staking(StakingQuery::BondedDenom {}));
        }
        app.init_modules(|router, api, storage| {
            router
                .staking
                .setup(storage, StakingInfo { bonded_denom: p.denom.clone(), unbonding_time: p.unbonding, apr: Decimal::from_str(&p.apr).unwrap() })
                .unwrap();
            for (i, c) in p.commissions.iter().enumerate() {
                let (mc, mr) = p.max_commissions.get(i).cloned().unwrap_or(("1".into(), "0.01".into()));
                let v = Validator::create(validator_name(p, i), Decimal::from_str(c).unwrap(), Decimal::from_str(&mc).unwrap(), Decimal::from_str(&mr).unwrap());
                router.staking.add_validator(api, storage, &block, v).unwrap();
            }
        });
        let u0 = "delegator0".into_addr().to_string();
        let u1 = "delegator1".into_addr().to_string();
        let operator = "operator".into_addr().to_string();
        let code = app.store_code(Box::new(ContractWrapper::new(relay_execute, relay_instantiate, relay_query)));
        let relay = app.instantiate_contract(code, Addr::unchecked(operator.clone()), &Empty {}, &[], "relay", None).unwrap().to_string();
        let delegators = vec![u0, u1, relay];
        for d in &delegators {
            app.sudo(SudoMsg::Bank(BankSudo::Mint { to_address: d.clone(), amount: vec![coin(START_BALANCE, p.denom.clone()), coin(1000, "ux"), coin(1000, other_case(&p.denom))] })).unwrap();
        }
        let noise = "noise-delegator".into_addr().to_string();
        app.sudo(SudoMsg::Bank(BankSudo::Mint { to_address: noise.clone(), amount: vec![coin(START_BALANCE, p.denom.clone())] })).unwrap();
        Inst { app, delegators, operator, noise, validators: validators(p), denom: p.denom.clone(), apr: p.apr.clone() }
    }

    fn exec_as(&mut self, d: usize, msg: CosmosMsg) -> Result<(), String> {
        if d == 2 {
            let contract = self.delegators[2].clone();
            self.app
                .execute(
                    Addr::unchecked(self.operator.clone()),
                    WasmMsg::Execute { contract_addr: contract, msg: to_json_binary(&RelayExec { msgs: vec![msg] }).unwrap(), funds: vec![] }.into(),
                )
                .map(|_| ())
                .map_err(|e| format!("{:#}", e))
        } else {
            self.app.execute(Addr::unchecked(self.delegators[d].clone()), msg).map(|_| ()).map_err(|e| format!("{:#}", e))
        }
    }

    /// Executes one op. `pieces`: how to split an Advance. Ok(result) or Err(panic message).
    pub fn exec(&mut self, op: &SOp, split: bool) -> Result<Result<(), String>, String> {
        catch(|| match op {
            SOp::Delegate { d, v, amount, denom } => self.exec_as(*d, StakingMsg::Delegate { validator: v.clone(), amount: coin(*amount, denom.clone()) }.into()),
            SOp::Undelegate { d, v, amount, denom } => self.exec_as(*d, StakingMsg::Undelegate { validator: v.clone(), amount: coin(*amount, denom.clone()) }.into()),
            SOp::Redelegate { d, src, dst, amount, denom } => {
                self.exec_as(*d, StakingMsg::Redelegate { src_validator: src.clone(), dst_validator: dst.clone(), amount: coin(*amount, denom.clone()) }.into())
            }
            SOp::Withdraw { d, v } => self.exec_as(*d, DistributionMsg::WithdrawDelegatorReward { validator: v.clone() }.into()),
            SOp::SetWithdraw { d, to } => self.exec_as(*d, DistributionMsg::SetWithdrawAddress { address: to.clone() }.into()),
            SOp::Reconfigure { unbonding } => {
                let info = StakingInfo { bonded_denom: self.denom.clone(), unbonding_time: *unbonding, apr: Decimal::from_str(&self.apr).unwrap() };
                self.app.init_modules(|router, _api, storage| router.staking.setup(storage, info).map_err(|e| format!("{:#}", e)))
            }
            SOp::Slash { v, p } => match Decimal::from_str(p) {
                Ok(pd) => self.app.sudo(SudoMsg::Staking(StakingSudo::Slash { validator: v.clone(), percentage: pd })).map(|_| ()).map_err(|e| format!("{:#}", e)),
                Err(e) => Err(format!("harness: bad decimal {}", e)),
            },
            SOp::Advance { nanos, pieces, set } => {
                if *set && !split {
                    let mut b = self.app.block_info();
                    b.time = b.time.plus_nanos(*nanos);
                    b.height += 1;
                    self.app.set_block(b);
                } else if split {
                    let vals: Vec<String> = self.validators.clone();
                    for (i, p) in pieces.iter().enumerate() {
                        let p = *p;
                        self.app.update_block(|b| {
                            b.time = b.time.plus_nanos(p);
                            b.height += 1;
                        });
                        if i + 1 < pieces.len() {
                            // an unrelated delegator stakes one token and takes it out again at once: this forces
                            // reward updates at this instant and leaves no stake behind
                            for v in &vals {
                                let _ = self.app.execute(Addr::unchecked(self.noise.clone()), StakingMsg::Delegate { validator: v.clone(), amount: coin(1, self.denom.clone()) }.into());
                                let _ = self.app.execute(Addr::unchecked(self.noise.clone()), StakingMsg::Undelegate { validator: v.clone(), amount: coin(1, self.denom.clone()) }.into());
                            }
                        }
                    }
                } else {
                    let s = *nanos;
                    self.app.update_block(|b| {
                        b.time = b.time.plus_nanos(s);
                        b.height += 1;
                    });
                }
                Ok(())
            }
        })
    }

    /// (shown delegation amount, shown pending TOKEN reward) or None when no delegation is reported.
    pub fn delegation(&self, d: usize, v: &str) -> Result<Option<(u128, u128)>, String> {
        let r: Result<DelegationResponse, _> =
            self.app.wrap().query(&QueryRequest::Staking(StakingQuery::Delegation { delegator: self.delegators[d].clone(), validator: v.to_string() }));
        match r {
            Ok(resp) => Ok(resp.delegation.map(|f| {
                let pending: u128 = f.accumulated_rewards.iter().filter(|c| c.denom == self.denom).map(|c| c.amount.u128()).sum();
                (f.amount.amount.u128(), pending)
            })),
            Err(e) => Err(e.to_string()),
        }
    }

    pub fn all_delegations(&self, d: usize) -> Result<Vec<(String, u128)>, String> {
        let r: Result<AllDelegationsResponse, _> = self.app.wrap().query(&QueryRequest::Staking(StakingQuery::AllDelegations { delegator: self.delegators[d].clone() }));
        r.map(|x| x.delegations.into_iter().map(|d| (d.validator, d.amount.amount.u128())).collect()).map_err(|e| e.to_string())
    }
}

// --- raw staking namespace decoder (structural monitor) ---------------------------------------

#[derive(Clone, Debug, Default)]
pub struct RawStaking {
    /// (delegator, validator) -> (stake, rewards) decimals
    pub stakes: BTreeMap<(String, String), (Q, Q)>,
    /// validator -> (stakers, integer total, last_rewards_calculation seconds)
    pub vinfo: BTreeMap<String, (BTreeSet<String>, u128, u64)>,
    pub queue: Vec<(String, String, u128, u64)>,
    pub decode_errors: Vec<String>,
}

pub fn decode_staking(raw: &rawstate::Raw) -> RawStaking {
    let mut out = RawStaking::default();
    let ns = rawstate::prefix(&[b"staking"]);
    let p_stakes = [ns.clone(), rawstate::lp(b"stakes")].concat();
    let p_vinfo = [ns.clone(), rawstate::lp(b"validator_info")].concat();
    let k_queue = [ns.clone(), b"unbonding_queue".to_vec()].concat();
    for (k, v) in raw {
        if k.starts_with(&p_stakes) {
            let rest = &k[p_stakes.len()..];
            if rest.len() < 2 {
                out.decode_errors.push("short stakes key".into());
                continue;
            }
            let n = ((rest[0] as usize) << 8) | rest[1] as usize;
            if rest.len() < 2 + n {
                out.decode_errors.push("bad stakes key".into());
                continue;
            }
            let d = String::from_utf8_lossy(&rest[2..2 + n]).to_string();
            let val = String::from_utf8_lossy(&rest[2 + n..]).to_string();
            match serde_json::from_slice::<serde_json::Value>(v) {
                Ok(j) => {
                    let s = j["stake"].as_str().and_then(Q::from_decimal_str);
                    let r = j["rewards"].as_str().and_then(Q::from_decimal_str);
                    match (s, r) {
                        (Some(s), Some(r)) => {
                            out.stakes.insert((d, val), (s, r));
                        }
                        _ => out.decode_errors.push("stakes value fields".into()),
                    }
                }
                Err(e) => out.decode_errors.push(format!("stakes value: {}", e)),
            }
        } else if k.starts_with(&p_vinfo) {
            let val = String::from_utf8_lossy(&k[p_vinfo.len()..]).to_string();
            match serde_json::from_slice::<serde_json::Value>(v) {
                Ok(j) => {
                    let stakers: Option<BTreeSet<String>> = j["stakers"].as_array().map(|a| a.iter().filter_map(|x| x.as_str().map(|s| s.to_string())).collect());
                    let total = j["stake"].as_str().and_then(|s| s.parse::<u128>().ok());
                    let last = j["last_rewards_calculation"].as_str().and_then(|s| s.parse::<u128>().ok()).map(|n| (n / 1_000_000_000) as u64);
                    match (stakers, total, last) {
                        (Some(a), Some(b), Some(c)) => {
                            out.vinfo.insert(val, (a, b, c));
                        }
                        _ => out.decode_errors.push("validator_info fields".into()),
                    }
                }
                Err(e) => out.decode_errors.push(format!("validator_info value: {}", e)),
            }
        } else if *k == k_queue {
            match serde_json::from_slice::<serde_json::Value>(v) {
                Ok(j) => {
                    for e in j.as_array().cloned().unwrap_or_default() {
                        let d = e["delegator"].as_str().unwrap_or("").to_string();
                        let val = e["validator"].as_str().unwrap_or("").to_string();
                        let a = e["amount"].as_str().and_then(|s| s.parse::<u128>().ok());
                        let t = e["payout_at"].as_str().and_then(|s| s.parse::<u128>().ok()).map(|n| (n / 1_000_000_000) as u64);
                        match (a, t) {
                            (Some(a), Some(t)) => out.queue.push((d, val, a, t)),
                            _ => out.decode_errors.push("queue entry fields".into()),
                        }
                    }
                }
                Err(e) => out.decode_errors.push(format!("queue value: {}", e)),
            }
        }
    }
    out
}

// --- reference model ---------------------------------------------------------------------------

#[derive(Clone, Debug)]
pub struct Pair {
    pub lo: u128, // displayed (integer) delegation
    pub hi: Q,    // exact upper bound of the fractional stake
    pub active: bool,
    pub r0: Q,
    pub x_lo: Q,
    pub x_hi: Q,
    pub withdrawn: u128,
    pub withdrawals: u64,
}

impl Pair {
    fn new() -> Pair {
        Pair { lo: 0, hi: Q::zero(), active: false, r0: Q::zero(), x_lo: Q::zero(), x_hi: Q::zero(), withdrawn: 0, withdrawals: 0 }
    }
}

#[derive(Clone, Debug)]
pub struct Unb {
    pub d: usize,
    pub v: String,
    pub amount: u128,
    pub payout_at: u64,
    pub slashed_while_pending: bool,
}

#[derive(Clone, Debug)]
pub struct Model {
    pub ledger: Ledger,
    pub pairs: BTreeMap<(usize, String), Pair>,
    pub queue: VecDeque<Unb>,
    pub slashed: BTreeSet<String>,
    /// block time in nanoseconds
    pub now: u64,
    /// some advance of this history was not a whole number of seconds
    pub subsecond: bool,
    /// generator switch: this history may advance by fractions of a second
    pub allow_subsecond: bool,
    /// per pair: slack for the implementation measuring elapsed time in whole seconds of the timestamps
    pub tol: BTreeMap<(usize, String), Q>,
    pub withdraw_addr: BTreeMap<usize, String>,
    pub vals: Vec<String>,
    pub commission: BTreeMap<String, Q>,
    pub apr: Q,
    pub unbonding: u64,
    pub delegators: Vec<String>,
    pub any_slash: bool,
    pub denom: String,
}

impl Model {
    pub fn new(p: &Params, inst: &Inst) -> Model {
        let mut ledger = Ledger::default();
        for d in &inst.delegators {
            ledger.mint(d, &vec![(p.denom.clone(), START_BALANCE), ("ux".to_string(), 1000), (other_case(&p.denom), 1000)]);
        }
        ledger.mint(&inst.noise, &vec![(p.denom.clone(), START_BALANCE)]);
        let vals = validators(p);
        let mut commission = BTreeMap::new();
        for (i, c) in p.commissions.iter().enumerate() {
            commission.insert(vals[i].clone(), Q::from_decimal_str(c).unwrap());
        }
        Model {
            ledger,
            pairs: BTreeMap::new(),
            queue: VecDeque::new(),
            slashed: BTreeSet::new(),
            now: 1_000_000 * NANOS,
            subsecond: false,
            allow_subsecond: false,
            tol: BTreeMap::new(),
            withdraw_addr: BTreeMap::new(),
            vals,
            commission,
            apr: Q::from_decimal_str(&p.apr).unwrap(),
            unbonding: p.unbonding,
            delegators: inst.delegators.clone(),
            any_slash: false,
            denom: p.denom.clone(),
        }
    }
    pub fn shown(&self, d: usize, v: &str) -> u128 {
        self.pairs.get(&(d, v.to_string())).map(|p| p.lo).unwrap_or(0)
    }
    fn pair(&mut self, d: usize, v: &str) -> &mut Pair {
        self.pairs.entry((d, v.to_string())).or_insert_with(Pair::new)
    }
    pub fn rate(&self, v: &str) -> Q {
        // per second and per staked token
        self.apr.clone() * (Q::int(1) - self.commission[v].clone()) * Q::ratio(1, YEAR)
    }
}

#[derive(Clone, Debug, PartialEq, Eq)]
pub enum Expect {
    MustOk,
    MustErr,
    Either,
}

pub type Fail = (String, String, String); // (property tag, signature, detail)

pub struct Run {
    pub inst: Inst,
    pub twin: Option<Inst>,
    pub model: Model,
    pub params: Params,
    /// near-integer withdrawal events tolerated in the twin comparison
    pub twin_near_int: u64,
    pub log: Vec<String>,
}

fn eps() -> Q {
    Q::ratio(1, 1_000_000_000)
}

impl Run {
    pub fn new(p: &Params, with_twin: bool) -> Run {
        let inst = Inst::new(p);
        let model = Model::new(p, &inst);
        let twin = if with_twin { Some(Inst::new(p)) } else { None };
        Run { inst, twin, model, params: p.clone(), twin_near_int: 0, log: vec![] }
    }

    /// Exact value (from the raw state) of what the pending-reward query floors.
    fn raw_pending(&self, rs: &RawStaking, d: usize, v: &str, now: u64) -> Option<Q> {
        let (stake, rewards) = rs.stakes.get(&(self.model.delegators[d].clone(), v.to_string()))?;
        let (_, total, last) = rs.vinfo.get(v)?;
        let now_s = now / NANOS;
        if *total == 0 || now_s <= *last {
            return Some(rewards.clone());
        }
        Some(rewards.clone() + stake.clone() * self.model.rate(v) * Q::int((now_s - last) as u128))
    }

    /// Applies one op to the instance(s) and the model; compares. Returns failures (possibly for several properties).
    pub fn step(&mut self, op: &SOp, rep: &mut Report) -> Vec<Fail> {
        let mut fails: Vec<Fail> = vec![];
        let raw_before = rawstate::dump(self.inst.app.storage());
        let n_d = self.model.delegators.len();
        let vals = self.model.vals.clone();

        // observations before (for withdrawals and slashes)
        let mut before: BTreeMap<(usize, String), Option<(u128, u128)>> = BTreeMap::new();
        for d in 0..n_d {
            for v in &vals {
                match self.inst.delegation(d, v) {
                    Ok(x) => {
                        before.insert((d, v.clone()), x);
                    }
                    Err(e) => {
                        fails.push(("C14".into(), "delegation-query-failed".into(), e));
                        return fails;
                    }
                }
            }
        }

        // ---- expectation from the model ------------------------------------------------------
        let mut m = self.model.clone();
        let bd = m.denom.clone();
        let known = |v: &str| vals.iter().any(|x| x == v);
        let (kind, expect): (&str, Expect) = match op {
            SOp::Delegate { d, v, amount, denom } => {
                let ok = *amount > 0 && *denom == bd && known(v) && m.ledger.bal(&m.delegators[*d], &bd) >= *amount;
                if ok {
                    let who = m.delegators[*d].clone();
                    m.ledger.send(&who, POOL, &vec![(bd.clone(), *amount)]);
                    let p = m.pair(*d, v);
                    p.lo += *amount;
                    p.hi = p.hi.clone() + Q::int(*amount);
                }
                ("delegate", if ok { Expect::MustOk } else { Expect::MustErr })
            }
            SOp::Undelegate { d, v, amount, denom } => {
                let valid = *amount > 0 && *denom == bd && known(v) && m.shown(*d, v) >= *amount;
                let e = if !valid {
                    Expect::MustErr
                } else if m.slashed.contains(v) {
                    Expect::Either
                } else {
                    Expect::MustOk
                };
                if valid {
                    let now = m.now;
                    let unb = m.unbonding;
                    let p = m.pair(*d, v);
                    p.lo -= *amount;
                    p.hi = p.hi.clone() - Q::int(*amount);
                    m.queue.push_back(Unb { d: *d, v: v.clone(), amount: *amount, payout_at: now + unb * NANOS, slashed_while_pending: false });
                }
                ("undelegate", e)
            }
            SOp::Redelegate { d, src, dst, amount, denom } => {
                let valid = *denom == bd && known(src) && known(dst) && m.shown(*d, src) >= *amount;
                let e = if *amount == 0 || (valid && src == dst) {
                    // zero amounts and redelegating to the same validator are not specified by the
                    // property: either outcome, but no visible effect (and the reward period goes on)
                    Expect::Either
                } else if !valid {
                    Expect::MustErr
                } else if m.slashed.contains(src) {
                    Expect::Either
                } else {
                    Expect::MustOk
                };
                if valid && *amount > 0 {
                    let p = m.pair(*d, src);
                    p.lo -= *amount;
                    p.hi = p.hi.clone() - Q::int(*amount);
                    let q = m.pair(*d, dst);
                    q.lo += *amount;
                    q.hi = q.hi.clone() + Q::int(*amount);
                }
                ("redelegate", e)
            }
            SOp::Withdraw { d, v } => {
                // success is not required by the property; effects are checked below
                let _ = (d, v);
                ("withdraw", Expect::Either)
            }
            SOp::SetWithdraw { d, to } => {
                let ok = self.inst_addr_valid(to);
                if ok {
                    m.withdraw_addr.insert(*d, to.clone());
                }
                ("set_withdraw_address", if ok { Expect::MustOk } else { Expect::MustErr })
            }
            SOp::Reconfigure { unbonding } => {
                m.unbonding = *unbonding;
                ("reconfigure", Expect::MustOk)
            }
            SOp::Slash { v, p } => {
                let pq = Q::from_decimal_str(p).unwrap();
                let ok = known(v) && pq <= Q::int(1);
                ("slash", if ok { Expect::MustOk } else { Expect::MustErr })
            }
            SOp::Advance { nanos, .. } => {
                let t = m.now + nanos;
                if nanos % NANOS != 0 {
                    m.subsecond = true;
                }
                let elapsed = Q::ratio(*nanos as u128, NANOS as u128);
                // accrue rewards over the interval (stakes are constant during it)
                let keys: Vec<(usize, String)> = m.pairs.keys().cloned().collect();
                let subsecond = m.subsecond;
                for k in keys {
                    let rate = m.rate(&k.1);
                    let p = m.pairs.get_mut(&k).unwrap();
                    if p.active {
                        p.x_lo = p.x_lo.clone() + Q::int(p.lo) * rate.clone() * elapsed.clone();
                        p.x_hi = p.x_hi.clone() + p.hi.clone() * rate.clone() * elapsed.clone();
                        if subsecond {
                            // elapsed time is measured in whole seconds of the timestamps: up to one second of
                            // reward per interval either way (far below one token for the bounded stakes)
                            let t = m.tol.entry(k.clone()).or_insert_with(Q::zero);
                            *t = t.clone() + p.hi.clone() * rate * Q::int(1);
                        }
                    }
                }
                m.now = t;
                while let Some(front) = m.queue.front() {
                    if front.payout_at <= t {
                        let u = m.queue.pop_front().unwrap();
                        if u.amount > 0 {
                            let who = m.delegators[u.d].clone();
                            m.ledger.send(POOL, &who, &vec![(bd.clone(), u.amount)]);
                        }
                        rep.bump(if u.slashed_while_pending { "stk/unbonding_paid/slashed_while_pending" } else { "stk/unbonding_paid/unslashed" });
                    } else {
                        break;
                    }
                }
                ("advance", Expect::MustOk)
            }
        };

        // ---- execute ----------------------------------------------------------------------------
        if matches!(op, SOp::Reconfigure { .. }) && self.twin.is_some() {
            // with another unbonding time the queue of pending unbondings is no longer ordered by payout time, and the
            // simulator pays from its front only (C14 speaks of parameters fixed at setup): the split-time twin, whose
            // unrelated delegator adds entries of its own, is not comparable from here on
            self.twin = None;
            rep.bump("stk/twin_dropped_after_reconfiguration");
        }
        let res = self.inst.exec(op, false);
        let twin_res = self.twin.as_mut().map(|t| t.exec(op, true));
        rep.evaluations += 1;
        let res = match res {
            Ok(r) => r,
            Err(panic) => {
                let msg = panic.split(" @ ").next().unwrap_or("").to_string();
                let short: String = msg.chars().take(80).collect();
                fails.push(("C14".into(), format!("panic:{}", slug(&short)), format!("{} panicked: {}", kind, panic)));
                return fails;
            }
        };
        if let Some(Err(panic)) = &twin_res {
            let msg = panic.split(" @ ").next().unwrap_or("").to_string();
            let short: String = msg.chars().take(80).collect();
            fails.push(("C14".into(), format!("panic:{}", slug(&short)), format!("{} panicked on the split-time twin: {}", kind, panic)));
            return fails;
        }
        let ok = res.is_ok();
        rep.bump(&format!("stk/op/{}/{}", kind, match (&expect, ok) {
            (Expect::MustOk, _) => "valid",
            (Expect::MustErr, _) => "invalid",
            (Expect::Either, true) => "unspecified-ok",
            (Expect::Either, false) => "unspecified-err",
        }));
        let prop_of = |k: &str| match k {
            "withdraw" | "set_withdraw_address" => "C15",
            "slash" => "C16",
            _ => "C14",
        };
        match (&expect, ok) {
            (Expect::MustOk, false) => {
                fails.push((prop_of(kind).into(), format!("{}-rejected-valid", kind), format!("{:?}: valid by the model but failed: {:?}", op, res)));
                return fails;
            }
            (Expect::MustErr, true) => {
                fails.push((prop_of(kind).into(), format!("{}-accepted-invalid", kind), format!("{:?}: invalid by the model but succeeded", op)));
                return fails;
            }
            _ => {}
        }
        let raw_after = rawstate::dump(self.inst.app.storage());
        if !ok {
            // I1: a failed operation has no effect at all
            rep.bump("stk/failed_op_state_unchanged_checks");
            if raw_after != raw_before {
                fails.push((prop_of(kind).into(), format!("failed-{}-changed-state", kind), format!("{:?} failed ({:?}) but storage changed: {:?}", op, res, rawstate::diff(&raw_before, &raw_after))));
            }
            return fails;
        }

        // ---- op succeeded: finish the model transition with observed values where the property allows a range
        let rs = decode_staking(&raw_after);
        if !rs.decode_errors.is_empty() {
            rep.bump("stk/raw_decode_errors");
        }
        let mut after: BTreeMap<(usize, String), Option<(u128, u128)>> = BTreeMap::new();
        for d in 0..n_d {
            for v in &vals {
                match self.inst.delegation(d, v) {
                    Ok(x) => {
                        after.insert((d, v.clone()), x);
                    }
                    Err(e) => {
                        fails.push(("C14".into(), "delegation-query-failed".into(), e));
                        return fails;
                    }
                }
            }
        }
        let shown_after = |d: usize, v: &str| after[&(d, v.to_string())].map(|x| x.0).unwrap_or(0);
        let pending_after = |d: usize, v: &str| after[&(d, v.to_string())].map(|x| x.1).unwrap_or(0);
        let pending_before = |d: usize, v: &str| before[&(d, v.to_string())].map(|x| x.1).unwrap_or(0);

        match op {
            SOp::Withdraw { d, v } => {
                // pays exactly the pending reward shown beforehand, to the current withdraw address
                let to = m.withdraw_addr.get(d).cloned().unwrap_or_else(|| m.delegators[*d].clone());
                let paid = if before[&(*d, v.clone())].is_some() {
                    pending_before(*d, v)
                } else {
                    // no delegation was shown (sub-token dust entry): the property does not say what is paid;
                    // take the observed amount so that the ledger comparison stays exact for everything else
                    rep.bump("stk/observation/withdraw_ok_without_shown_delegation");
                    let lb = rawstate::bank_ledger(&raw_before).ok().and_then(|l| l.get(&to).and_then(|x| x.get(bd.as_str()).copied())).unwrap_or(0);
                    let la = rawstate::bank_ledger(&raw_after).ok().and_then(|l| l.get(&to).and_then(|x| x.get(bd.as_str()).copied())).unwrap_or(0);
                    la.saturating_sub(lb)
                };
                m.ledger.mint(&to, &vec![(bd.clone(), paid)]);
                if before[&(*d, v.clone())].is_some() {
                    rep.bump("stk/withdraw_ok_with_shown_delegation");
                }
                let p = m.pair(*d, v);
                if p.active {
                    p.withdrawn += paid;
                    p.withdrawals += 1;
                }
                if pending_after(*d, v) != 0 {
                    fails.push(("C15".into(), "pending-not-reset-by-withdrawal".into(), format!("{:?}: pending reward after a successful withdrawal is {}", op, pending_after(*d, v))));
                }
                // others unaffected
                for dd in 0..n_d {
                    for vv in &vals {
                        if (dd, vv.as_str()) != (*d, v.as_str()) {
                            rep.bump("stk/others_pending_unchanged_checks");
                            if pending_before(dd, vv) != pending_after(dd, vv) {
                                fails.push(("C15".into(), "withdrawal-changed-another-delegators-reward".into(), format!("{:?}: pending of delegator {} at {} went {} -> {}", op, dd, vv, pending_before(dd, vv), pending_after(dd, vv))));
                            }
                        }
                    }
                }
            }
            SOp::Slash { v, p } => {
                let pq = Q::from_decimal_str(p).unwrap();
                let rem = Q::int(1) - pq.clone();
                m.slashed.insert(v.clone());
                m.any_slash = true;
                for d in 0..n_d {
                    for vv in &vals {
                        let b = before[&(d, vv.clone())].map(|x| x.0).unwrap_or(0);
                        let a = shown_after(d, vv);
                        if vv == v {
                            let pair = m.pair(d, vv);
                            let lo_bound = (Q::int(pair.lo) * rem.clone()).floor_u128();
                            let hi_bound = (pair.hi.clone() * rem.clone()).floor_u128();
                            rep.bump(if pair.lo > 0 { "stk/slash_scaled_delegations_checked" } else { "stk/slash_empty_pairs_checked" });
                            if a > b {
                                fails.push(("C16".into(), "slash-increased-a-delegation".into(), format!("{:?}: delegator {} {} -> {}", op, d, b, a)));
                            } else if a < lo_bound || a > hi_bound {
                                let sig = if a == 0 && lo_bound >= 1 && pq < Q::int(1) { "slash-below-one-removed-a-delegation-that-scales-to-a-whole-token" } else { "slashed-delegation-outside-scaled-interval" };
                                fails.push((
                                    "C16".into(),
                                    sig.into(),
                                    format!("{:?}: delegator {} shown {} -> {}, expected within [{}, {}] (shown before {}, exact upper bound {:.6})", op, d, b, a, lo_bound, hi_bound, pair.lo, pair.hi.to_f64()),
                                ));
                            }
                            if pq == Q::int(1) && a != 0 {
                                fails.push(("C16".into(), "full-slash-left-a-delegation".into(), format!("{:?}: delegator {} still shows {}", op, d, a)));
                            }
                            pair.lo = a;
                            pair.hi = pair.hi.clone() * rem.clone();
                            if a == 0 && pq == Q::int(1) {
                                pair.hi = Q::zero();
                            }
                            // accrued rewards of a delegation that stays positive are unchanged
                            if a > 0 {
                                rep.bump("stk/slash_rewards_unchanged_checks");
                                if pending_before(d, vv) != pending_after(d, vv) {
                                    fails.push(("C16".into(), "slash-changed-accrued-rewards".into(), format!("{:?}: pending of delegator {} went {} -> {}", op, d, pending_before(d, vv), pending_after(d, vv))));
                                }
                            }
                        } else {
                            rep.bump("stk/slash_other_validator_unchanged_checks");
                            if a != b || pending_before(d, vv) != pending_after(d, vv) {
                                fails.push(("C16".into(), "slash-touched-another-validator".into(), format!("{:?}: delegator {} at {}: amount {} -> {}, pending {} -> {}", op, d, vv, b, a, pending_before(d, vv), pending_after(d, vv))));
                            }
                        }
                    }
                }
                for u in m.queue.iter_mut() {
                    if u.v == *v {
                        u.amount = (Q::int(u.amount) * rem.clone()).floor_u128();
                        u.slashed_while_pending = true;
                        rep.bump("stk/slash_scaled_pending_unbondings");
                    }
                }
            }
            _ => {}
        }

        // ---- compare everything observable with the model --------------------------------------
        // delegations
        for d in 0..n_d {
            for v in &vals {
                let a = shown_after(d, v);
                rep.bump("stk/delegation_compared");
                // the query against the committed raw state (floor of the stored fractional stake)
                let raw_amount = rs.stakes.get(&(m.delegators[d].clone(), v.clone())).map(|x| x.0.floor_u128()).unwrap_or(0);
                if rs.decode_errors.is_empty() && a != raw_amount {
                    fails.push(("C10".into(), "staking-query-differs-from-committed-state".into(), format!("{:?}: delegator {} at {}: Delegation query shows {}, raw state holds {}", op, d, v, a, raw_amount)));
                }
                if a != m.shown(d, v) {
                    let tag = if kind == "slash" { "C16" } else { "C14" };
                    fails.push((tag.into(), format!("delegation-differs-after-{}", kind), format!("{:?}: delegator {} at {} shows {}, model {}", op, d, v, a, m.shown(d, v))));
                }
            }
            // AllDelegations agrees with the single queries on positive amounts
            match self.inst.all_delegations(d) {
                Ok(list) => {
                    let pos: BTreeMap<String, u128> = list.iter().filter(|(_, a)| *a > 0).cloned().collect();
                    let want: BTreeMap<String, u128> = vals.iter().filter(|v| shown_after(d, v) > 0).map(|v| (v.clone(), shown_after(d, v))).collect();
                    if list.iter().any(|(_, a)| *a == 0) {
                        rep.bump("stk/observation/all_delegations_lists_zero_amount_dust");
                    }
                    if pos != want {
                        fails.push(("C14".into(), "all-delegations-disagrees-with-delegation-query".into(), format!("{:?}: delegator {}: AllDelegations {:?}, Delegation queries {:?}", op, d, pos, want)));
                        fails.push(("C10".into(), "staking-queries-disagree-with-each-other".into(), format!("{:?}: delegator {}: AllDelegations {:?}, Delegation queries {:?}", op, d, pos, want)));
                    }
                }
                Err(e) => fails.push(("C14".into(), "all-delegations-query-failed".into(), e)),
            }
        }
        // the bonded denomination shown is the one the module was set up with (last)
        {
            let bd: Result<cosmwasm_std::BondedDenomResponse, _> = self.inst.app.wrap().query(&QueryRequest::Staking(StakingQuery::BondedDenom {}));
            rep.bump("stk/bonded_denom_checked");
            match bd {
                Ok(r) if r.denom == m.denom => {}
                other => {
                    let detail = format!("{:?}: BondedDenom answers {:?}, the module was set up with {:?}", op, other.map(|r| r.denom).map_err(|e| e.to_string()), m.denom);
                    fails.push(("C14".into(), "bonded-denom-query-differs-from-the-setup".into(), detail.clone()));
                    fails.push(("C10".into(), "staking-query-differs-from-committed-state".into(), detail));
                }
            }
        }
        // AllValidators lists exactly the validators of the chain, each answering the single Validator query, too
        {
            let all: Result<cosmwasm_std::AllValidatorsResponse, _> = self.inst.app.wrap().query(&QueryRequest::Staking(StakingQuery::AllValidators {}));
            rep.bump("stk/all_validators_checked");
            match all {
                Ok(r) => {
                    let mut got: Vec<String> = r.validators.iter().map(|v| v.address.clone()).collect();
                    got.sort();
                    let mut want = vals.clone();
                    want.sort();
                    if got != want {
                        fails.push(("C10".into(), "staking-queries-disagree-with-each-other".into(), format!("{:?}: AllValidators lists {} validators, the chain has {}", op, got.len(), want.len())));
                    }
                }
                Err(e) => fails.push(("C10".into(), "all-validators-query-failed".into(), e.to_string())),
            }
        }
        // bank: raw ledger == model ledger
        match rawstate::bank_ledger(&raw_after) {
            Ok(ledger) => {
                let mut accounts: Vec<String> = ledger.keys().cloned().chain(m.ledger.accounts.keys().cloned()).collect();
                accounts.sort();
                accounts.dedup();
                for a in accounts {
                    let real: Vec<(String, u128)> = ledger.get(&a).map(|x| x.iter().filter(|(_, v)| **v > 0).map(|(k, v)| (k.clone(), *v)).collect()).unwrap_or_default();
                    rep.bump("stk/balance_compared");
                    if real != m.ledger.all(&a) {
                        let (tag, sig) = match kind {
                            "withdraw" => ("C15", "withdrawal-paid-other-than-the-pending-reward-shown".to_string()),
                            "slash" => ("C16", "slash-changed-a-bank-balance".to_string()),
                            "advance" => ("C14", "unbonding-payout-differs".to_string()),
                            k => ("C14", format!("balances-differ-after-{}", k)),
                        };
                        fails.push((tag.into(), sig.clone(), format!("{:?}: account {} has {:?}, model {:?}", op, a, real, m.ledger.all(&a))));
                        if kind == "advance" && m.any_slash {
                            fails.push(("C16".into(), "unbonding-payout-differs-after-slash".into(), format!("{:?}: account {} has {:?}, model {:?}", op, a, real, m.ledger.all(&a))));
                        }
                        break;
                    }
                }
            }
            Err(e) => fails.push(("C14".into(), "bank-raw-ledger-malformed".into(), e)),
        }

        // ---- reward periods and bounds (C15) ------------------------------------------------------
        let now = m.now;
        for d in 0..n_d {
            for v in &vals {
                let shown = shown_after(d, v);
                let key = (d, v.clone());
                let was_active = m.pairs.get(&key).map(|p| p.active).unwrap_or(false);
                if shown > 0 && !was_active {
                    // a period starts: baseline = exact reward already credited to the entry (normally 0)
                    let r0 = rs.stakes.get(&(m.delegators[d].clone(), v.clone())).map(|x| x.1.clone()).unwrap_or_else(Q::zero);
                    // ... which is only legitimate for a delegation that stayed positive below one token (a slashed
                    // remainder): where nothing at all was staked before this operation, the new period starts at 0
                    let nothing_staked_before = self.model.pairs.get(&key).map(|p| p.hi == Q::zero()).unwrap_or(true);
                    rep.bump(if nothing_staked_before { "stk/reward_periods_started_from_nothing" } else { "stk/reward_periods_started_from_a_remainder" });
                    if nothing_staked_before && r0 > eps() {
                        fails.push(("C15".into(), "new-delegation-starts-with-rewards-it-did-not-earn".into(), format!("{:?}: delegator {} at {}: nothing was staked before, yet the entry starts with {:.9} credited", op, d, v, r0.to_f64())));
                    }
                    let p = m.pair(d, v);
                    p.active = true;
                    p.r0 = r0;
                    p.x_lo = Q::zero();
                    p.x_hi = Q::zero();
                    p.withdrawn = 0;
                    p.withdrawals = 0;
                    m.tol.remove(&key);
                    rep.bump("stk/reward_periods_started");
                } else if shown == 0 && was_active {
                    m.pair(d, v).active = false;
                    rep.bump("stk/reward_periods_ended");
                }
                if let Some(p) = m.pairs.get(&key) {
                    if p.active {
                        let total = Q::int(p.withdrawn + pending_after(d, v));
                        let slack = m.tol.get(&key).cloned().unwrap_or_else(Q::zero);
                        let upper = p.r0.clone() + p.x_hi.clone() + eps() + slack.clone();
                        let lower = p.r0.clone() + p.x_lo.clone() - Q::int(p.withdrawals as u128 + 1) - eps() - slack;
                        rep.bump("stk/reward_bounds_checked");
                        if p.withdrawals > 0 {
                            rep.bump("stk/reward_bounds_checked_after_withdrawals");
                        }
                        if total > upper {
                            fails.push(("C15".into(), "rewards-over-paid".into(), format!("{:?}: delegator {} at {}: withdrawn {} + pending {} > bound {:.9}", op, d, v, p.withdrawn, pending_after(d, v), upper.to_f64())));
                        }
                        if !(total > lower) {
                            let total_is_zero = rs.vinfo.get(v).map(|x| x.1 == 0).unwrap_or(false);
                            let self_redelegation = matches!(op, SOp::Redelegate { d: rd, src, dst, .. } if src == dst && *rd == d && src == v);
                            let sig = if total_is_zero {
                                "reward-shortfall-while-validator-total-is-zero"
                            } else if self_redelegation {
                                "accrued-rewards-lost-by-redelegating-everything-to-the-same-validator"
                            } else {
                                "rewards-fall-short"
                            };
                            fails.push(("C15".into(), sig.into(), format!("{:?}: delegator {} at {}: withdrawn {} + pending {} <= lower bound {:.9} ({} withdrawals)", op, d, v, p.withdrawn, pending_after(d, v), lower.to_f64(), p.withdrawals)));
                        }
                        // the query shows the floor of what the raw state holds
                        if let Some(vq) = self.raw_pending(&rs, d, v, now) {
                            let f1 = (vq.clone() + eps()).floor_u128();
                            let f0 = if vq > eps() { (vq.clone() - eps()).floor_u128() } else { 0 };
                            rep.bump("stk/pending_vs_raw_state_checked");
                            let shown_p = pending_after(d, v);
                            if shown_p != f0 && shown_p != f1 {
                                let detail = format!("{:?}: delegator {} at {}: query shows {}, raw state implies {:.9}", op, d, v, shown_p, vq.to_f64());
                                fails.push(("C15".into(), "pending-query-differs-from-credited-plus-uncredited".into(), detail.clone()));
                                // a query must observe exactly the committed state
                                fails.push(("C10".into(), "staking-query-differs-from-committed-state".into(), detail));
                            }
                        }
                    }
                }
            }
        }

        // ---- structural monitor (amplifier, not a verdict) ----------------------------------------
        for (v, (stakers, _, _)) in &rs.vinfo {
            for s in stakers {
                if !rs.stakes.contains_key(&(s.clone(), v.clone())) {
                    rep.bump("stk/structural/staker_without_stake_entry");
                    self.log.push(format!("structural: {} lists staker {} without a stake entry", v, s));
                }
            }
        }
        for ((d, v), _) in &rs.stakes {
            if !rs.vinfo.get(v).map(|x| x.0.contains(d)).unwrap_or(false) {
                rep.bump("stk/structural/stake_entry_not_in_staker_set");
            }
        }
        rep.bump("stk/structural_checks");

        // ---- split-time twin (path independence) ----------------------------------------------------
        if let (Some(twin), Some(Ok(tres))) = (self.twin.as_ref(), twin_res.as_ref()) {
            rep.bump("stk/twin_steps_compared");
            if tres.is_ok() != ok {
                fails.push(("C15".into(), "twin-outcome-differs".into(), format!("{:?}: single-step instance {:?}, split-time instance {:?}", op, res, tres)));
            } else {
                let traw = rawstate::dump(twin.app.storage());
                let trs = decode_staking(&traw);
                for d in 0..n_d {
                    for v in &vals {
                        let ta = match twin.delegation(d, v) {
                            Ok(x) => x,
                            Err(e) => {
                                fails.push(("C15".into(), "twin-query-failed".into(), e));
                                continue;
                            }
                        };
                        let a = after[&(d, v.clone())];
                        if a.map(|x| x.0) != ta.map(|x| x.0) {
                            fails.push(("C15".into(), "twin-delegation-differs".into(), format!("{:?}: delegator {} at {}: {:?} vs split-time {:?}", op, d, v, a, ta)));
                            continue;
                        }
                        if let SOp::Withdraw { d: wd, v: wv } = op {
                            if *wd == d && wv == v {
                                // paid amounts: equal unless the exact value sits on an integer boundary
                                continue;
                            }
                        }
                        if a.is_some() {
                            if let (Some(x), Some(y)) = (self.raw_pending(&rs, d, v, now), self.raw_pending(&trs, d, v, now)) {
                                let diff = x.abs_diff(&y);
                                rep.bump("stk/twin_reward_values_compared");
                                if diff > eps() {
                                    fails.push(("C15".into(), "reward-depends-on-how-time-was-split".into(), format!("{:?}: delegator {} at {}: exact pending {:.12} vs split-time {:.12}", op, d, v, x.to_f64(), y.to_f64())));
                                }
                            }
                        }
                    }
                }
                // bank balances must agree (a withdrawal's floor can flip only on an integer boundary)
                if let (Ok(mut la), Ok(mut lb)) = (rawstate::bank_ledger(&raw_after), rawstate::bank_ledger(&traw)) {
                    // the twin's unrelated delegator moves its own tokens into the pool
                    for l in [&mut la, &mut lb] {
                        l.remove(&self.inst.noise);
                        l.remove(POOL);
                    }
                    if la != lb && self.twin_near_int == 0 {
                        let mut near = false;
                        if let SOp::Withdraw { d, v } = op {
                            // exact value just before the withdrawal, from the pre-state
                            let rsb = decode_staking(&raw_before);
                            if let Some(x) = self.raw_pending(&rsb, *d, v, now) {
                                if x.dist_to_integer() < eps() {
                                    near = true;
                                }
                            }
                        }
                        if near {
                            self.twin_near_int += 1;
                            rep.bump("stk/twin_near_integer_withdrawals_tolerated");
                        } else {
                            fails.push(("C15".into(), "balances-depend-on-how-time-was-split".into(), format!("{:?}: bank ledgers differ between single-step and split-time instance", op)));
                        }
                    }
                }
            }
        }

        self.model = m;
        fails
    }

    fn inst_addr_valid(&self, s: &str) -> bool {
        use cosmwasm_std::Api;
        self.inst.app.api().addr_validate(s).is_ok()
    }
}

pub fn slug(s: &str) -> String {
    let mut out = String::new();
    for c in s.chars() {
        if c.is_ascii_alphanumeric() {
            out.push(c.to_ascii_lowercase());
        } else if !out.ends_with('-') {
            out.push('-');
        }
    }
    out.trim_matches('-').to_string()
}

// --- generator -----------------------------------------------------------------------------------

pub fn gen_params(rng: &mut Rng) -> Params {
    // (annual rates above 100 % are valid: the rate is an unrestricted decimal)
    let apr = rng.pick(&["0.1", "0.1", "0.075", "1", "0.33", "0", "0.000000000000000001", "1.5", "1.000000000000000001", "12"]).to_string();
    let unbonding = *rng.pick(&[60u64, 60, 1, 3600, 0]);
    let n = rng.range(2, 3) as usize;
    let pool = ["0", "0.1", "0.33", "0.05", "1", "0.5"];
    let commissions = (0..n).map(|_| rng.pick(&pool).to_string()).collect();
    let denom = rng.pick(&["TOKEN", "TOKEN", "ustake"]).to_string();
    let max_commissions = (0..n).map(|_| (rng.pick(&["1", "1", "0.2", "0", "0.05"]).to_string(), rng.pick(&["0.01", "0", "1"]).to_string())).collect();
    let naming = *rng.pick(&[0u8, 0, 0, 1, 1, 2]);
    let set_up_twice = rng.chance(1, 4);
    Params { apr, unbonding, commissions, max_commissions, naming, denom, set_up_twice }
}

fn gen_amount(rng: &mut Rng, reference: u128) -> u128 {
    match rng.below(12) {
        0 => 0,
        1..=4 => rng.range_u128(1, 12),
        5 => reference,
        6 => reference + 1,
        7 => reference.saturating_sub(1).max(1),
        8 => (reference / 2).max(1),
        _ => rng.range_u128(1_000, 1_000_000),
    }
}

#[derive(Clone, Copy, Debug, PartialEq)]
pub enum Mix {
    Uniform,
    RewardHeavy,
    SlashHeavy,
}

pub fn gen_op(rng: &mut Rng, m: &Model, mix: Mix) -> SOp {
    let d = rng.usize_below(m.delegators.len());
    let v = rng.pick(&m.vals).clone();
    let weights: [u64; 7] = match mix {
        Mix::Uniform => [4, 3, 2, 2, 1, 2, 4],
        Mix::RewardHeavy => [4, 2, 1, 5, 2, 1, 5],
        Mix::SlashHeavy => [4, 3, 2, 1, 0, 5, 3],
    };
    let total: u64 = weights.iter().sum();
    let mut r = rng.below(total);
    let mut kind = 0;
    for (i, w) in weights.iter().enumerate() {
        if r < *w {
            kind = i;
            break;
        }
        r -= w;
    }
    // now and then another denomination than the bonded one: an unrelated one, or a near miss of the bonded one
    // (the same letters in the other case — the delegators hold such coins too —, a prefix, a suffix, padding)
    let denom = if rng.chance(1, 25) {
        match rng.below(6) {
            0 | 1 => other_case(&m.denom),
            2 => format!("{} ", m.denom),
            3 => m.denom[..m.denom.len() - 1].to_string(),
            4 => format!("{}2", m.denom),
            _ => "ux".to_string(),
        }
    } else {
        m.denom.clone()
    };
    let maybe_unknown = |rng: &mut Rng, v: String| if rng.chance(1, 30) { "nobody".to_string() } else { v };
    // prefer pairs that already have a delegation for undelegate / redelegate / withdraw
    let existing: Vec<(usize, String)> = m.pairs.iter().filter(|(_, p)| p.lo > 0).map(|(k, _)| k.clone()).collect();
    let pick_existing = |rng: &mut Rng| -> Option<(usize, String)> { if existing.is_empty() || rng.chance(1, 8) { None } else { Some(rng.pick(&existing).clone()) } };
    match kind {
        0 => {
            let amount = gen_amount(rng, 7);
            SOp::Delegate { d, v: maybe_unknown(rng, v), amount, denom }
        }
        1 => {
            let (d, v) = pick_existing(rng).unwrap_or((d, v));
            let amount = gen_amount(rng, m.shown(d, &v));
            SOp::Undelegate { d, v: maybe_unknown(rng, v), amount, denom }
        }
        2 => {
            let (d, src) = pick_existing(rng).unwrap_or((d, v));
            let dst0 = rng.pick(&m.vals).clone();
            let dst = maybe_unknown(rng, dst0);
            let amount = gen_amount(rng, m.shown(d, &src));
            SOp::Redelegate { d, src, dst, amount, denom }
        }
        3 => {
            let (d, v) = pick_existing(rng).unwrap_or((d, v));
            SOp::Withdraw { d, v: maybe_unknown(rng, v) }
        }
        4 => {
            let to = match rng.below(6) {
                0 => "not an address".to_string(),
                1 => m.delegators[d].clone(),
                2 => m.delegators[(d + 1) % m.delegators.len()].clone(),
                _ => format!("rcpt{}", rng.below(2)).into_addr().to_string(),
            };
            SOp::SetWithdraw { d, to }
        }
        5 => {
            let p = rng.pick(&["0", "0.01", "0.1", "0.25", "0.333333333333333333", "0.5", "0.5", "0.4", "0.9", "1", "1.000000000000000001", "1.5"]).to_string();
            SOp::Slash { v: maybe_unknown(rng, v), p }
        }
        _ => {
            let secs = match rng.below(14) {
                0 => 0,
                1 => 1,
                2 => 59,
                3 => 60,
                4 => 61,
                5 => m.unbonding,
                6 => m.unbonding.saturating_sub(1),
                7..=8 => 3600,
                9..=10 => 30 * 86400,
                11 => 400 * 86400,
                _ => rng.range(1, 100_000),
            };
            let mut nanos = secs * NANOS;
            if m.allow_subsecond && rng.chance(1, 2) {
                nanos += rng.range(1, NANOS - 1);
            }
            let k = rng.range(1, 5).min(nanos.max(1));
            let mut pieces = vec![];
            let mut left = nanos;
            for i in 0..k {
                let p = if i + 1 == k {
                    left
                } else if m.allow_subsecond {
                    rng.range(0, left)
                } else {
                    rng.range(0, left / NANOS) * NANOS
                };
                pieces.push(p);
                left -= p;
            }
            SOp::Advance { nanos, pieces, set: rng.chance(1, 3) }
        }
    }
}

/// Runs a generated history. Returns the executed case and all failures found at the first failing step.
pub fn run_random(rng: &mut Rng, len: usize, mix: Mix, with_twin: bool, rep: &mut Report) -> (Case, Vec<Fail>) {
    let params = gen_params(rng);
    let mut run = Run::new(&params, with_twin);
    run.model.allow_subsecond = rng.chance(1, 3);
    if run.model.allow_subsecond {
        rep.bump("stk/histories_with_subsecond_block_times");
    }
    let mut ops = vec![];
    for _ in 0..len {
        // now and then a delegator leaves a validator altogether after rewards have accrued (undelegating or
        // redelegating everything it shows there) and comes back with a fresh delegation
        let existing: Vec<(usize, String)> = run.model.pairs.iter().filter(|(_, p)| p.lo > 0).map(|(k, _)| k.clone()).collect();
        let batch: Vec<SOp> = if !existing.is_empty() && rng.chance(1, 25) {
            let (d, v) = rng.pick(&existing).clone();
            let all = run.model.shown(d, &v);
            let denom = run.model.denom.clone();
            let secs = *rng.pick(&[86_400u64, 30 * 86_400, 400 * 86_400]);
            let others: Vec<String> = run.model.vals.iter().filter(|x| **x != v).cloned().collect();
            let leave = if !others.is_empty() && rng.chance(1, 2) {
                SOp::Redelegate { d, src: v.clone(), dst: rng.pick(&others).clone(), amount: all, denom: denom.clone() }
            } else {
                SOp::Undelegate { d, v: v.clone(), amount: all, denom: denom.clone() }
            };
            rep.bump("stk/leave_and_return_motifs");
            vec![SOp::Advance { nanos: secs * NANOS, pieces: vec![secs * NANOS], set: false }, leave, SOp::Delegate { d, v: v.clone(), amount: rng.range_u128(1, 5000), denom }, SOp::Withdraw { d, v }]
        } else if !existing.is_empty() && rng.chance(1, 30) {
            // the unbonding time is changed while an unbonding is pending, then the validator is slashed
            let (d, v) = rng.pick(&existing).clone();
            let shown = run.model.shown(d, &v);
            let denom = run.model.denom.clone();
            let new_period = *rng.pick(&[0u64, 1, 5, 60, 3600, 86_400]);
            rep.bump("stk/reconfigure_motifs");
            vec![
                SOp::Undelegate { d, v: v.clone(), amount: (shown / 2).max(1), denom },
                SOp::Reconfigure { unbonding: new_period },
                SOp::Slash { v: v.clone(), p: rng.pick(&["0.5", "0.1", "1", "0.333333333333333333"]).to_string() },
                SOp::Advance { nanos: 3 * NANOS, pieces: vec![3 * NANOS], set: false },
                SOp::Advance { nanos: 2 * 86_400 * NANOS, pieces: vec![86_400 * NANOS, 86_400 * NANOS], set: false },
            ]
        } else if rng.chance(1, 60) {
            vec![SOp::Reconfigure { unbonding: *rng.pick(&[0u64, 1, 60, 3600]) }]
        } else {
            vec![gen_op(rng, &run.model, mix)]
        };
        for op in batch {
            ops.push(op.clone());
            let fails = run.step(&op, rep);
            if !fails.is_empty() {
                return (Case { params, ops }, fails);
            }
        }
    }
    finish(&run, &ops, rep);
    (Case { params, ops }, vec![])
}

fn finish(run: &Run, ops: &[SOp], rep: &mut Report) {
    // non-trivial history: some unbonding matured or some reward period saw a withdrawal or some slash hit a delegation
    let kinds: Vec<&str> = ops
        .iter()
        .map(|o| match o {
            SOp::Delegate { .. } => "D",
            SOp::Undelegate { .. } => "U",
            SOp::Redelegate { .. } => "R",
            SOp::Withdraw { .. } => "W",
            SOp::SetWithdraw { .. } => "A",
            SOp::Reconfigure { .. } => "C",
            SOp::Slash { .. } => "S",
            SOp::Advance { .. } => "T",
        })
        .collect();
    let positive = run.model.pairs.values().filter(|p| p.lo > 0).count();
    if positive > 0 || run.model.any_slash {
        rep.fingerprints.insert(fp_str(&format!("{:?}{}{:?}", run.params, kinds.concat(), run.model.pairs.values().map(|p| p.lo).collect::<Vec<_>>())));
    }
}

pub fn run_case(case: &Case, with_twin: bool, rep: &mut Report) -> Vec<Fail> {
    let mut run = Run::new(&case.params, with_twin);
    for op in &case.ops {
        let fails = run.step(op, rep);
        if !fails.is_empty() {
            return fails;
        }
    }
    finish(&run, &case.ops, rep);
    vec![]
}

/// Constructive histories: the scenarios of DESIGN.md section 6 (D1, D6, D7) and the basic flows.
pub fn templates() -> Vec<(String, Case)> {
    let p = Params { apr: "0.1".into(), unbonding: 60, commissions: vec!["0.1".into(), "0".into()], max_commissions: vec![], naming: 0, denom: DENOM.to_string(), set_up_twice: false };
    let v0 = "validator0".to_string();
    let v1 = "validator1".to_string();
    let t = DENOM.to_string();
    let adv = |s: u64| SOp::Advance { nanos: s * NANOS, pieces: vec![(s / 2) * NANOS, (s - s / 2) * NANOS], set: s % 2 == 1 };
    vec![
        (
            "dust-cleanup-then-reward-update".into(),
            Case {
                params: p.clone(),
                ops: vec![
                    SOp::Delegate { d: 1, v: v0.clone(), amount: 10, denom: t.clone() },
                    SOp::Delegate { d: 0, v: v0.clone(), amount: 3, denom: t.clone() },
                    SOp::Undelegate { d: 0, v: v0.clone(), amount: 2, denom: t.clone() },
                    SOp::Slash { v: v0.clone(), p: "0.5".into() },
                    adv(61),
                    adv(3600),
                    SOp::Delegate { d: 1, v: v0.clone(), amount: 1, denom: t.clone() },
                    SOp::Withdraw { d: 1, v: v0.clone() },
                ],
            },
        ),
        (
            "repeated-slashes-drift".into(),
            Case {
                params: p.clone(),
                ops: vec![
                    SOp::Delegate { d: 0, v: v0.clone(), amount: 7, denom: t.clone() },
                    SOp::Slash { v: v0.clone(), p: "0.5".into() },
                    SOp::Slash { v: v0.clone(), p: "0.4".into() },
                    SOp::Slash { v: v0.clone(), p: "0.1".into() },
                ],
            },
        ),
        (
            "rewards-after-drift-to-zero-total".into(),
            Case {
                params: p.clone(),
                ops: vec![
                    SOp::Delegate { d: 0, v: v0.clone(), amount: 7, denom: t.clone() },
                    SOp::Slash { v: v0.clone(), p: "0.5".into() },
                    SOp::Slash { v: v0.clone(), p: "0.4".into() },
                    SOp::Undelegate { d: 0, v: v0.clone(), amount: 1, denom: t.clone() },
                    adv(400 * 86400),
                    adv(400 * 86400),
                    adv(400 * 86400),
                    adv(400 * 86400),
                    adv(400 * 86400),
                    adv(400 * 86400),
                    adv(400 * 86400),
                    adv(400 * 86400),
                    adv(400 * 86400),
                    adv(400 * 86400),
                    adv(400 * 86400),
                    adv(400 * 86400),
                    adv(400 * 86400),
                    adv(400 * 86400),
                    adv(400 * 86400),
                    adv(400 * 86400),
                    adv(400 * 86400),
                    adv(400 * 86400),
                    adv(400 * 86400),
                    adv(400 * 86400),
                    adv(400 * 86400),
                    adv(400 * 86400),
                    adv(400 * 86400),
                    adv(400 * 86400),
                    adv(400 * 86400),
                    adv(400 * 86400),
                    adv(400 * 86400),
                    adv(400 * 86400),
                    SOp::Withdraw { d: 0, v: v0.clone() },
                ],
            },
        ),
        (
            // 150 pending unbondings from two validators and three delegators, interleaved; slashes while they are
            // pending; partial maturity; everything paid in the end
            "long-unbonding-queue".into(),
            Case {
                params: Params { unbonding: 3600, ..p.clone() },
                ops: {
                    let mut ops = vec![
                        SOp::Delegate { d: 0, v: v0.clone(), amount: 10_000, denom: t.clone() },
                        SOp::Delegate { d: 1, v: v0.clone(), amount: 7_000, denom: t.clone() },
                        SOp::Delegate { d: 2, v: v1.clone(), amount: 9_000, denom: t.clone() },
                        SOp::Delegate { d: 0, v: v1.clone(), amount: 4_000, denom: t.clone() },
                    ];
                    for i in 0..150u128 {
                        let (d, v) = match i % 4 {
                            0 => (0, v0.clone()),
                            1 => (1, v0.clone()),
                            2 => (2, v1.clone()),
                            _ => (0, v1.clone()),
                        };
                        ops.push(SOp::Undelegate { d, v, amount: 1 + i % 7, denom: t.clone() });
                        if i % 25 == 24 {
                            ops.push(adv(20 * 60));
                        }
                        if i == 60 {
                            ops.push(SOp::Slash { v: v0.clone(), p: "0.25".into() });
                        }
                        if i == 110 {
                            ops.push(SOp::Slash { v: v1.clone(), p: "0.1".into() });
                        }
                    }
                    ops.push(adv(30 * 60));
                    ops.push(SOp::Slash { v: v0.clone(), p: "0.5".into() });
                    ops.push(adv(3600));
                    ops.push(adv(3600));
                    ops
                },
            },
        ),
        (
            // well over a hundred validators: delegations to the first, middle and last ones are listed by every query
            "many-validators".into(),
            Case {
                params: Params { commissions: (0..130).map(|i| ["0.1", "0", "0.5"][i % 3].to_string()).collect(), ..p.clone() },
                ops: vec![
                    SOp::Delegate { d: 0, v: "validator0".into(), amount: 100, denom: t.clone() },
                    SOp::Delegate { d: 0, v: "validator64".into(), amount: 200, denom: t.clone() },
                    SOp::Delegate { d: 0, v: "validator100".into(), amount: 300, denom: t.clone() },
                    SOp::Delegate { d: 1, v: "validator129".into(), amount: 400, denom: t.clone() },
                    SOp::Delegate { d: 2, v: "validator101".into(), amount: 500, denom: t.clone() },
                    adv(86400),
                    SOp::Withdraw { d: 1, v: "validator129".into() },
                    SOp::Redelegate { d: 0, src: "validator100".into(), dst: "validator128".into(), amount: 150, denom: t.clone() },
                    SOp::Undelegate { d: 2, v: "validator101".into(), amount: 500, denom: t.clone() },
                    SOp::Slash { v: "validator128".into(), p: "0.5".into() },
                    adv(61),
                ],
            },
        ),
        (
            // a delegator leaves a validator with unwithdrawn rewards (redelegating / undelegating everything) and
            // comes back: the new delegation starts without the rewards of the old one
            "leave-and-return".into(),
            Case {
                params: p.clone(),
                ops: vec![
                    SOp::Delegate { d: 0, v: v0.clone(), amount: 1000, denom: t.clone() },
                    SOp::Delegate { d: 1, v: v0.clone(), amount: 700, denom: t.clone() },
                    adv(365 * 86400),
                    SOp::Redelegate { d: 0, src: v0.clone(), dst: v1.clone(), amount: 1000, denom: t.clone() },
                    SOp::Undelegate { d: 1, v: v0.clone(), amount: 700, denom: t.clone() },
                    adv(180 * 86400),
                    SOp::Redelegate { d: 0, src: v1.clone(), dst: v0.clone(), amount: 500, denom: t.clone() },
                    SOp::Delegate { d: 1, v: v0.clone(), amount: 10, denom: t.clone() },
                    adv(365 * 86400),
                    SOp::Withdraw { d: 0, v: v0.clone() },
                    SOp::Withdraw { d: 1, v: v0.clone() },
                ],
            },
        ),
        (
            "basic-flow".into(),
            Case {
                params: p.clone(),
                ops: vec![
                    SOp::Delegate { d: 0, v: v0.clone(), amount: 1000, denom: t.clone() },
                    SOp::Delegate { d: 1, v: v0.clone(), amount: 333, denom: t.clone() },
                    SOp::Delegate { d: 2, v: v1.clone(), amount: 5000, denom: t.clone() },
                    adv(30 * 86400),
                    SOp::Withdraw { d: 0, v: v0.clone() },
                    SOp::SetWithdraw { d: 1, to: "rcpt0".into_addr().to_string() },
                    SOp::Withdraw { d: 1, v: v0.clone() },
                    SOp::Redelegate { d: 0, src: v0.clone(), dst: v1.clone(), amount: 400, denom: t.clone() },
                    SOp::Undelegate { d: 2, v: v1.clone(), amount: 5000, denom: t.clone() },
                    SOp::Undelegate { d: 1, v: v0.clone(), amount: 334, denom: t.clone() },
                    SOp::Delegate { d: 1, v: v0.clone(), amount: 0, denom: t.clone() },
                    SOp::Delegate { d: 1, v: v0.clone(), amount: 5, denom: "ux".into() },
                    SOp::Delegate { d: 1, v: v0.clone(), amount: 5, denom: other_case(&t) },
                    SOp::Undelegate { d: 0, v: v0.clone(), amount: 5, denom: other_case(&t) },
                    SOp::Redelegate { d: 0, src: v0.clone(), dst: v1.clone(), amount: 5, denom: other_case(&t) },
                    SOp::Delegate { d: 1, v: "nobody".into(), amount: 5, denom: t.clone() },
                    adv(59),
                    adv(1),
                    SOp::Slash { v: v1.clone(), p: "0.25".into() },
                    SOp::Slash { v: v1.clone(), p: "1.5".into() },
                    SOp::Slash { v: "nobody".into(), p: "0.5".into() },
                    SOp::Undelegate { d: 0, v: v0.clone(), amount: 100, denom: t.clone() },
                    SOp::Slash { v: v0.clone(), p: "0.5".into() },
                    adv(60),
                    SOp::Slash { v: v0.clone(), p: "1".into() },
                    adv(400 * 86400),
                    SOp::Withdraw { d: 0, v: v1.clone() },
                ],
            },
        ),
    ]
}
