//! Generators for E1: message trees, transactions, histories, failure sweeps, templates.

use crate::engines::e1_chain::*;
use crate::model::chain::*;
use crate::puppet::*;
use crate::rawstate;
use crate::rng::Rng;
use cosmwasm_std::{coin, Binary, Coin};

#[derive(Clone, Debug)]
pub struct Profile {
    pub fail_pct: u64,
    pub bad_attr_pct: u64,
    pub registry_pct: u64,
    pub admin_pct: u64,
    pub funds_pct: u64,
    pub probe_pct: u64,
    pub write_pct: u64,
    pub crafted_keys: bool,
    pub max_depth: usize,
    pub max_nodes: usize,
    pub fanout: u64,
    pub rich_output: bool,
    /// percentage of messages that are outside the chain model (staking, distribution, ibc, gov, stargate)
    pub opaque_pct: u64,
    /// percentage of top-level operations that store / duplicate code
    pub code_ops_pct: u64,
}

impl Profile {
    pub fn base() -> Profile {
        Profile { fail_pct: 15, bad_attr_pct: 3, registry_pct: 10, admin_pct: 6, funds_pct: 30, probe_pct: 50, write_pct: 70, crafted_keys: false, max_depth: 5, max_nodes: 24, fanout: 3, rich_output: true, opaque_pct: 0, code_ops_pct: 3 }
    }
}

pub const DENOMS: [&str; 3] = ["ua", "ub", "uc"];

pub struct Gen<'a> {
    pub rng: &'a mut Rng,
    pub p: Profile,
    pub tag: u32,
    pub nonce: u32,
    pub nodes_left: usize,
    pub users: Vec<String>,
    pub counter: u32,
    /// a (contract, key) that was just overwritten/removed in this tree: later probes look at it
    pub watch: Option<(String, Vec<u8>)>,
}

fn ghost_of(api: ApiKind) -> String {
    api.addr_make("ghost")
}

/// Another bech32 string for the same bytes: the unused padding bits of the last data symbol set (`bits` in 1..16),
/// checksum recomputed. Codecs that normalise accept it; cosmwasm_std's MockApi rejects it.
pub fn alt_spelling(api: ApiKind, addr: &str, bits: u8) -> Option<String> {
    use bech32::primitives::decode::CheckedHrpstring;
    use bech32::{Fe32, Fe32IterExt};
    let m = api == ApiKind::Bech32m;
    let parsed = if m { CheckedHrpstring::new::<bech32::Bech32m>(addr).ok()? } else { CheckedHrpstring::new::<bech32::Bech32>(addr).ok()? };
    let hrp = parsed.hrp();
    let mut fes: Vec<Fe32> = parsed.data_part_ascii_no_checksum().iter().map(|b| Fe32::from_char(*b as char).unwrap()).collect();
    // 32 bytes = 256 bits in 52 five-bit symbols: the low 4 bits of the last one are padding
    if fes.len() != 52 {
        return None;
    }
    let last = fes.pop()?;
    fes.push(Fe32::try_from(last.to_u8() ^ (bits & 15).max(1)).ok()?);
    Some(if m { fes.into_iter().with_checksum::<bech32::Bech32m>(&hrp).chars().collect() } else { fes.into_iter().with_checksum::<bech32::Bech32>(&hrp).chars().collect() })
}

impl<'a> Gen<'a> {
    pub fn new(rng: &'a mut Rng, p: Profile, users: Vec<String>, tag_base: u32) -> Gen<'a> {
        let n = p.max_nodes;
        Gen { rng, p, tag: tag_base, nonce: tag_base, nodes_left: n, users, counter: 0, watch: None }
    }

    fn pct(&mut self, p: u64) -> bool {
        self.rng.below(100) < p
    }

    fn key(&mut self, m: &ChainM, me: &str) -> Vec<u8> {
        if self.p.crafted_keys && self.pct(40) {
            let others: Vec<&String> = m.st.contracts.keys().filter(|a| a.as_str() != me).collect();
            return match self.rng.below(6) {
                0 => [rawstate::prefix(&[b"bank"]), rawstate::lp(b"balances"), self.users[0].as_bytes().to_vec()].concat(),
                1 if !others.is_empty() => {
                    let o = self.rng.pick(&others).to_string();
                    [rawstate::prefix(&[b"wasm"]), rawstate::lp(b"contracts"), o.into_bytes()].concat()
                }
                2 if !others.is_empty() => {
                    let o = self.rng.pick(&others).to_string();
                    [rawstate::prefix(&[b"wasm"]), rawstate::lp(format!("contract_data/{}", o).as_bytes()), b"a".to_vec()].concat()
                }
                3 => [rawstate::prefix(&[b"staking"]), b"unbonding_queue".to_vec()].concat(),
                // its own raw prefix, whole (wasm namespace + its contract namespace, with and without a tail) or the
                // inner level only: to the contract these are keys like any other
                _ if self.pct(50) => {
                    let mut k = [rawstate::prefix(&[b"wasm"]), rawstate::lp(format!("contract_data/{}", me).as_bytes())].concat();
                    if self.pct(50) {
                        k.push(b'a');
                    }
                    k
                }
                _ => rawstate::lp(format!("contract_data/{}", me).as_bytes()),
            };
        }
        const KEYS: [&[u8]; 12] = [b"", b"a", b"b", b"k", &[0x00], &[0xFF], &[0xFF, 0xFF], b"a\x00", b"ab", b"pppppppp\x7f", b"pppppppp\x80", b"pppppppp"];
        self.rng.pick(&KEYS).to_vec()
    }

    /// A name whose length sits on a power-of-two boundary (one byte, two bytes of length).
    fn long_name(&mut self) -> String {
        let n = *self.rng.pick(&[255usize, 256, 257, 258, 511, 512, 513, 65_535, 65_536, 65_537]);
        let c = *self.rng.pick(&['e', 'k', 'z']);
        std::iter::repeat(c).take(n).collect()
    }

    fn attr_key(&mut self) -> String {
        if self.pct(1) {
            return self.long_name();
        }
        if self.pct(self.p.bad_attr_pct) {
            self.rng.pick(&["", " ", "\t\n", "_", " _x", "_ ", "_reserved", "\u{00A0}", "\u{2003}\u{3000}", "  _", "_contract_address"]).to_string()
        } else {
            // control characters are not whitespace: keys made of them, or hiding an underscore behind one, are valid
            self.rng.pick(&["action", "k", "a", "é", "x_", " a ", "a_b", "ab", "-", "\u{00A0}x", "contract_address", "code_id", "wasm-k", "\u{1}", "\u{0}_hidden", "\u{7f}", "k\u{0}"]).to_string()
        }
    }

    /// Values are never judged: every one of them must surface unchanged.
    fn attr_value(&mut self) -> String {
        match self.rng.below(14) {
            0 if self.pct(20) => self.long_name(),
            0 => "v".repeat(600),
            1 => "_reserved".to_string(),
            2 => "  padded  ".to_string(),
            3 => "é✓\u{00A0}".to_string(),
            4 => "a\nb\tc".to_string(),
            _ => self.rng.pick(&["", "v", " ", "_", "1", "x"]).to_string(),
        }
    }

    fn event_type(&mut self) -> String {
        if self.pct(2) {
            return self.long_name();
        }
        if self.pct(self.p.bad_attr_pct) {
            self.rng.pick(&["", "a", " a ", "\u{00A0}a", " ", "\t", "x"]).to_string()
        } else {
            self.rng.pick(&["ab", "  ab ", "é", "transfer", "wasm", "evt", "_x", "a b", "wasm-transfer", "wasm-", "wasm-wasm", "execute", "reply", "instantiate", "WASM-ab", "wasm_ab", "sudo", "migrate", "-ab", "\u{7f}x", "\u{1}\u{1}", " \u{0}y "]).to_string()
        }
    }

    fn coins_for(&mut self, m: &ChainM, sender: &str) -> Vec<Coin> {
        let d = self.rng.pick(&DENOMS).to_string();
        let bal = m.st.bank.bal(sender, &d);
        match self.rng.below(12) {
            0 => vec![coin(bal + 1, d)],
            1 => vec![coin(0, d)],
            2 if bal > 0 => vec![coin(bal, d)],
            3 if bal > 1 => vec![coin(bal / 2, d.clone()), coin(bal - bal / 2, d)],
            4 if bal > 1 => vec![coin(bal / 2 + 1, d.clone()), coin(bal / 2 + 1, d)],
            5 => vec![coin(1, "unknown")],
            6 if bal > 0 => vec![coin(0, "ub"), coin(1.min(bal), d)],
            _ => {
                if bal > 0 {
                    vec![coin(self.rng.range_u128(1, bal.min(1000)), d)]
                } else {
                    vec![coin(1, d)]
                }
            }
        }
    }

    fn probe(&mut self, m: &ChainM, me: &str) -> Probe {
        let mut addrs: Vec<String> = m.st.contracts.keys().cloned().collect();
        addrs.extend(self.users.iter().cloned());
        addrs.push(me.to_string());
        let a = if self.pct(5) { "bad address".to_string() } else if self.pct(5) { ghost_of(m.api) } else { self.rng.pick(&addrs).clone() };
        let a = self.spell(m, a);
        let contracts: Vec<String> = m.st.contracts.keys().cloned().chain(std::iter::once(me.to_string())).collect();
        if let Some((wa, wk)) = self.watch.clone() {
            if self.pct(50) {
                return if self.pct(50) { Probe::WasmRaw { addr: wa, key: Binary::from(wk) } } else { Probe::WasmSmart { addr: wa } };
            }
        }
        let c = if self.pct(8) { ghost_of(m.api) } else { self.rng.pick(&contracts).clone() };
        let c = self.spell(m, c);
        match self.rng.below(12) {
            0 => Probe::Balance { addr: a, denom: self.rng.pick(&DENOMS).to_string() },
            1 => Probe::AllBalances { addr: a },
            2 => Probe::Supply { denom: self.rng.pick(&DENOMS).to_string() },
            3 | 4 => Probe::WasmRaw { addr: c, key: Binary::from(self.key(m, me)) },
            5 | 6 => Probe::WasmSmart { addr: c },
            7 => Probe::ContractInfo { addr: c },
            8 => Probe::CodeInfo { code_id: if self.pct(20) { 999 } else { *self.rng.pick(&m.codes.keys().copied().chain([0]).collect::<Vec<_>>()) } },
            9 => Probe::Custom { n: self.rng.below(100) },
            10 => {
                let s = if self.pct(50) { Some(Binary::from(self.key(m, me))) } else { None };
                let e = if self.pct(50) { Some(Binary::from(self.key(m, me))) } else { None };
                Probe::OwnRange { start: s, end: e, desc: self.pct(50), what: self.rng.below(3) as u8 }
            }
            _ => Probe::OwnGet { key: Binary::from(self.key(m, me)) },
        }
    }

    /// A script to be run by the contract at `me` (sub-messages are sent with `me` as sender).
    pub fn script(&mut self, m: &ChainM, me: &str, depth_left: usize) -> Script {
        self.tag += 1;
        let tag = self.tag;
        self.nodes_left = self.nodes_left.saturating_sub(1);
        let mut s = Script { tag, ..Default::default() };
        if self.pct(self.p.probe_pct) {
            for _ in 0..self.rng.range(1, 3) {
                let p = self.probe(m, me);
                s.probes.push(p);
            }
        }
        // write patterns on keys that already exist below this transaction: overwrite-then-remove, remove-then-rewrite
        if self.pct(self.p.write_pct / 3) {
            let existing: Vec<Vec<u8>> = m.st.contracts.get(me).map(|c| c.storage.keys().cloned().collect()).unwrap_or_default();
            if !existing.is_empty() {
                let k = self.rng.pick(&existing).clone();
                self.counter += 1;
                let v = Binary::from(format!("{}:{}", tag, self.counter).into_bytes());
                match self.rng.below(3) {
                    0 => {
                        s.writes.push((Binary::from(k.clone()), Some(v)));
                        s.writes.push((Binary::from(k.clone()), None));
                    }
                    1 => {
                        s.writes.push((Binary::from(k.clone()), None));
                        s.writes.push((Binary::from(k.clone()), Some(v)));
                    }
                    _ => {
                        s.writes.push((Binary::from(k.clone()), None));
                    }
                }
                self.watch = Some((me.to_string(), k));
            }
        }
        if self.pct(self.p.write_pct) {
            for _ in 0..self.rng.range(1, 3) {
                let k = self.key(m, me);
                self.counter += 1;
                let v = if self.pct(25) { None } else { Some(Binary::from(format!("{}:{}", tag, self.counter).into_bytes())) };
                s.writes.push((Binary::from(k), v));
            }
        }
        // now and then a call that logs hundreds of writes in its frame (and takes them all back again, so that
        // storage stays small): whether the frame is committed or abandoned, nothing but its net effect remains
        if self.pct(2) {
            // one in ten of them logs thousands of writes
            let n = if self.pct(10) { self.rng.range(2100, 2200) } else { self.rng.range(70, 120) };
            let t = s.tag;
            for i in 0..n {
                s.writes.push((Binary::from(format!("bulk{}-{}", t, i).into_bytes()), Some(Binary::from(vec![b'B']))));
            }
            for i in 0..n {
                s.writes.push((Binary::from(format!("bulk{}-{}", t, i).into_bytes()), None));
            }
            if self.pct(50) {
                s.fail = true;
            }
        }
        if self.p.rich_output {
            for _ in 0..self.rng.below(4) {
                let k = self.attr_key();
                let v = self.attr_value();
                s.attrs.push((k, v));
            }
            for _ in 0..self.rng.below(3) {
                let ty = self.event_type();
                let mut attrs = vec![];
                for _ in 0..self.rng.below(3) {
                    let k = self.attr_key();
                    let v = self.attr_value();
                    attrs.push((k, v));
                }
                s.events.push(Ev { ty, attrs });
            }
            s.data = match self.rng.below(9) {
                0 | 1 => None,
                // long data: the length prefix of the response encoding needs more than one byte from 128 on
                8 => Some(Binary::from(vec![b'L'; *self.rng.pick(&[127usize, 128, 129, 255, 256, 300, 16_383, 16_384, 70_000])])),
                2 => Some(Binary::from(vec![])),
                // data that itself looks like an encoded execute / instantiate response (as when a contract forwards
                // the data of a message it dispatched): it is wrapped again like any other data
                3 => Some(Binary::from(wrap_exec(Some(format!("d{}", tag).into_bytes())).unwrap())),
                4 => Some(Binary::from(match self.rng.below(3) {
                    0 => wrap_exec(Some(vec![])).unwrap_or_default(),
                    1 => wrap_instantiate(me, Some(format!("d{}", tag).into_bytes())),
                    _ => vec![0x0a, 0x02, b'o'],
                })),
                _ => Some(Binary::from(format!("d{}", tag).into_bytes())),
            };
        }
        // now and then the very same sub-message twice in a row (it is dispatched twice)
        if self.pct(3) {
            if let Some(last) = s.msgs.last().cloned() {
                if count_scripts(&last.msg) <= 2 {
                    s.msgs.push(last);
                }
            }
        }
        // now and then a response of unusual size: well over a hundred attributes, or dozens of plain messages
        if self.pct(1) {
            for i in 0..self.rng.range(129, 140) {
                s.attrs.push((format!("k{}", i), "v".into()));
            }
        }
        if self.pct(1) && depth_left > 0 {
            let to = self.users[2].clone();
            // dozens, now and then more messages than a byte counts
            let many = if self.pct(20) { self.rng.range(257, 300) } else { self.rng.range(33, 70) };
            for i in 0..many {
                s.msgs.push(Sub { id: i, mode: RMode::Never, payload: Payload::Raw(Binary::default()), msg: Msg::BankSend { to: to.clone(), coins: vec![coin(1, "ua")] } });
            }
        }
        // now and then a response creates a contract and uses it in later sibling messages
        if depth_left > 0 && self.pct(2) {
            for (i, msg) in self.create_then_use(m, me).into_iter().enumerate() {
                let mode = *self.rng.pick(&[RMode::Never, RMode::Never, RMode::Success, RMode::Always]);
                s.msgs.push(Sub { id: 700 + i as u64, mode, payload: Payload::Raw(Binary::from(vec![2u8])), msg });
            }
        }
        if depth_left > 0 && self.nodes_left > 0 {
            let n = self.rng.below(self.p.fanout + 1);
            for _ in 0..n {
                if self.nodes_left == 0 {
                    break;
                }
                let sub = self.sub(m, me, depth_left - 1);
                s.msgs.push(sub);
            }
        }
        s.fail = self.pct(self.p.fail_pct);
        s
    }

    fn sub(&mut self, m: &ChainM, me: &str, depth_left: usize) -> Sub {
        let id = match self.rng.below(6) {
            0 => 0,
            1 => u64::MAX,
            2 => 7,
            _ => self.rng.next_u64(),
        };
        let mode = *self.rng.pick(&[RMode::Always, RMode::Error, RMode::Success, RMode::Never]);
        let msg = self.msg(m, me, depth_left);
        let payload = if self.pct(10) {
            Payload::Raw(Binary::from(match self.rng.below(3) {
                0 => vec![],
                1 => b"not json".to_vec(),
                _ => self.rng.bytes(5),
            }))
        } else {
            self.nonce += 1;
            let nonce = self.nonce;
            // reply scripts are smaller
            let d = depth_left.min(2);
            let on_ok = self.script(m, me, d.saturating_sub(1));
            let on_err = self.script(m, me, d.saturating_sub(1));
            Payload::Plan(Box::new(ReplyPlan { nonce, on_ok, on_err }))
        };
        Sub { id, mode, payload, msg }
    }

    /// Now and then another spelling of the same address (often where the codec normalises, rarely where it rejects).
    fn spell(&mut self, m: &ChainM, a: String) -> String {
        let p = if m.api == ApiKind::Std { 2 } else { 14 };
        if !self.pct(p) {
            return a;
        }
        if self.pct(12) {
            return a.to_uppercase();
        }
        if self.pct(10) {
            // white space around an address makes another string of it
            return match self.rng.below(3) {
                0 => format!(" {}", a),
                1 => format!("{} ", a),
                _ => format!("{}\n", a),
            };
        }
        if self.pct(25) {
            // the same bytes under the other checksum variant (valid on a chain with the other codec, never here)
            let other = if m.api == ApiKind::Bech32m { ApiKind::Bech32 } else { ApiKind::Bech32m };
            if let Some(s) = m.api.canonicalize(&a).and_then(|c| other.humanize(&c)) {
                return s;
            }
        }
        let bits = self.rng.range(1, 15) as u8;
        alt_spelling(m.api, &a, bits).unwrap_or(a)
    }

    fn target(&mut self, m: &ChainM) -> String {
        let contracts: Vec<String> = m.st.contracts.keys().cloned().collect();
        match self.rng.below(40) {
            0 => ghost_of(m.api),
            1 => "not an address".to_string(),
            2 if !contracts.is_empty() => self.rng.pick(&contracts).to_uppercase(),
            _ if !contracts.is_empty() => self.rng.pick(&contracts).clone(),
            _ => ghost_of(m.api),
        }
    }

    /// A message sent by `sender` (a user at top level, the executing contract below).
    pub fn msg(&mut self, m: &ChainM, sender: &str, depth_left: usize) -> Msg {
        if self.p.opaque_pct > 0 && self.pct(self.p.opaque_pct) {
            self.nodes_left = self.nodes_left.saturating_sub(1);
            return Msg::Opaque(self.opaque());
        }
        // now and then a wasm message whose payload the contract cannot read (empty, not JSON, JSON of another shape)
        if self.pct(2) {
            self.nodes_left = self.nodes_left.saturating_sub(1);
            return self.garbled(m, sender);
        }
        let r = self.rng.below(100);
        let reg = self.p.registry_pct;
        let adm = self.p.admin_pct;
        if r < reg {
            return self.inst(m, sender, depth_left);
        }
        if r < reg + adm {
            return self.admin_op(m, sender, depth_left);
        }
        let r = self.rng.below(100);
        match r {
            0..=59 => {
                let addr = self.target(m);
                let funds = if self.pct(self.p.funds_pct) { self.coins_for(m, sender) } else { vec![] };
                let script = self.script(m, &addr, depth_left);
                let addr = self.spell(m, addr);
                Msg::Exec { addr, script: Box::new(script), funds }
            }
            60..=79 => {
                let mut tos: Vec<String> = self.users.clone();
                tos.extend(m.st.contracts.keys().cloned());
                tos.push("not validated by the bank".to_string());
                // accounts whose names extend / are cut from another account's name (recipients are not validated)
                tos.push(format!("{}x", self.users[0]));
                tos.push(self.users[1][..self.users[1].len() - 1].to_string());
                tos.push(sender.to_string());
                let to = self.rng.pick(&tos).clone();
                let to = self.spell(m, to);
                let coins = self.coins_for(m, sender);
                self.nodes_left = self.nodes_left.saturating_sub(1);
                Msg::BankSend { to, coins }
            }
            80..=87 => {
                self.nodes_left = self.nodes_left.saturating_sub(1);
                Msg::BankBurn { coins: self.coins_for(m, sender) }
            }
            _ => {
                self.tag += 1;
                self.nodes_left = self.nodes_left.saturating_sub(1);
                Msg::Custom { tag: self.tag, fail: self.pct(30) }
            }
        }
    }

    /// A message for one of the modules outside the chain model.
    pub fn opaque(&mut self) -> cosmwasm_std::CosmosMsg<PMsg> {
        use cosmwasm_std::{CosmosMsg, DistributionMsg, StakingMsg};
        let val = self.rng.pick(&["validator0", "validator1", "nobody"]).to_string();
        let amount = match self.rng.below(6) {
            0 => coin(0, "TOKEN"),
            1 => coin(5, "ua"),
            2 => coin(1_000_000_000, "TOKEN"),
            _ => coin(self.rng.range_u128(1, 60), "TOKEN"),
        };
        match self.rng.below(12) {
            0..=3 => CosmosMsg::Staking(StakingMsg::Delegate { validator: val, amount }),
            4..=5 => CosmosMsg::Staking(StakingMsg::Undelegate { validator: val, amount }),
            6 => CosmosMsg::Staking(StakingMsg::Redelegate { src_validator: val, dst_validator: self.rng.pick(&["validator0", "validator1"]).to_string(), amount }),
            7..=8 => CosmosMsg::Distribution(DistributionMsg::WithdrawDelegatorReward { validator: val }),
            9 => CosmosMsg::Distribution(DistributionMsg::SetWithdrawAddress { address: self.rng.pick(&self.users).clone() }),
            10 => CosmosMsg::Gov(cosmwasm_std::GovMsg::Vote { proposal_id: 1, option: cosmwasm_std::VoteOption::Yes }),
            _ => CosmosMsg::Ibc(cosmwasm_std::IbcMsg::CloseChannel { channel_id: "channel-0".into() }),
        }
    }

    /// Messages that create a contract and then use it within the same batch / the same response: an instantiation
    /// (plain address derivation) followed by calls to the address it will get — an execute, and now and then a
    /// migration or an admin change by the admin named in the instantiation.
    fn create_then_use(&mut self, m: &ChainM, sender: &str) -> Vec<Msg> {
        let ids: Vec<u64> = m.codes.iter().filter(|(_, c)| c.entry_points == (true, true, true)).map(|(i, _)| *i).collect();
        if ids.is_empty() {
            return vec![];
        }
        let code_id = *self.rng.pick(&ids);
        let addr = crate::model::chain::classic_address(m.api, code_id, if m.one_address_per_code { 0 } else { m.st.contracts.len() as u64 });
        let mut next = |g: &mut Self| {
            g.tag += 1;
            g.counter += 1;
            Script { tag: g.tag, writes: vec![(Binary::from(b"ctu".to_vec()), Some(Binary::from(format!("{}:{}", g.tag, g.counter).into_bytes())))], ..Default::default() }
        };
        let mut v = vec![Msg::Inst { code_id, script: Box::new(next(self)), funds: vec![], label: "created-in-this-batch".into(), admin: Some(sender.to_string()), salt: None }];
        v.push(Msg::Exec { addr: addr.clone(), script: Box::new(next(self)), funds: vec![] });
        match self.rng.below(4) {
            0 => v.push(Msg::Migrate { addr: addr.clone(), code_id: *self.rng.pick(&ids), script: Box::new(next(self)) }),
            1 => v.push(Msg::UpdateAdmin { addr: addr.clone(), admin: self.users[1].clone() }),
            2 => v.push(Msg::Exec { addr, script: Box::new(next(self)), funds: vec![] }),
            _ => {}
        }
        v
    }

    fn garbled(&mut self, m: &ChainM, sender: &str) -> Msg {
        let bytes = Binary::from(match self.rng.below(6) {
            0 | 1 => vec![],
            2 => b"{}".to_vec(),
            3 => b"null".to_vec(),
            4 => b"not json".to_vec(),
            _ => b"{\"tag\":\"seven\"}".to_vec(),
        });
        let ids: Vec<u64> = m.codes.keys().copied().collect();
        let code_id = if ids.is_empty() { 1 } else { *self.rng.pick(&ids) };
        // migrations preferably of a contract this sender administers (everything else about the message is in order)
        let mine: Vec<String> = m.st.contracts.iter().filter(|(_, c)| c.admin.as_deref() == Some(sender)).map(|(a, _)| a.clone()).collect();
        let kind = self.rng.below(3) as u8;
        let addr = if kind == 2 && !mine.is_empty() { self.rng.pick(&mine).clone() } else { self.target(m) };
        Msg::Garbled { kind, addr, code_id, bytes }
    }

    pub fn inst(&mut self, m: &ChainM, sender: &str, depth_left: usize) -> Msg {
        let ids: Vec<u64> = m.codes.keys().copied().collect();
        let code_id = match self.rng.below(20) {
            0 => 0,
            1 => 999,
            _ if !ids.is_empty() => *self.rng.pick(&ids),
            _ => 1,
        };
        let label = if self.pct(7) {
            String::new()
        } else if self.pct(15) {
            // labels are recorded exactly as supplied
match self.rng.below(8) {
                0 => "l".repeat(300),
                1 => "ユニコード-étiquette".to_string(),
                _ => self.rng.pick(&[" padded", "padded ", "\tx\n", " ", "a b", "\u{00A0}nbsp"]).to_string(),
            }
        } else {
            format!("c{}", self.rng.below(1000))
        };
        let mut admins: Vec<Option<String>> = vec![None, Some(sender.to_string()), Some(self.users[0].clone()), Some(self.users[1].clone())];
        if let Some(c) = m.st.contracts.keys().next() {
            admins.push(Some(c.clone()));
        }
        // the admin of an instantiate message is recorded as supplied (not validated)
        admins.push(Some("not an address".to_string()));
        admins.push(Some(String::new()));
        let admin = self.rng.pick(&admins).clone();
        let admin = match admin {
            Some(a) => Some(self.spell(m, a)),
            None => None,
        };
        let salt = match self.rng.below(10) {
            0..=4 => None,
            5 | 6 => Some(Binary::from(vec![self.rng.range(1, 2) as u8])),
            7 => {
                let n = self.rng.range(1, 64) as usize;
                Some(Binary::from(self.rng.bytes(n)))
            }
            8 => Some(Binary::from(vec![])),
            _ => Some(Binary::from(vec![7u8; 65])),
        };
        let funds = if self.pct(self.p.funds_pct) { self.coins_for(m, sender) } else { vec![] };
        // the new address is not known to the generator: the init script uses plain keys only
        let script = self.script(m, sender, depth_left.min(1));
        Msg::Inst { code_id, script: Box::new(script), funds, label, admin, salt }
    }

    pub fn admin_op(&mut self, m: &ChainM, sender: &str, depth_left: usize) -> Msg {
        // prefer contracts this sender administers
        let mine: Vec<String> = m.st.contracts.iter().filter(|(_, c)| c.admin.as_deref() == Some(sender)).map(|(a, _)| a.clone()).collect();
        let addr = if !mine.is_empty() && self.pct(60) { self.rng.pick(&mine).clone() } else { self.target(m) };
        match self.rng.below(4) {
            0 | 1 => {
                let ids: Vec<u64> = m.codes.keys().copied().collect();
                let code_id = match self.rng.below(15) {
                    0 => 0,
                    1 => 999,
                    _ if !ids.is_empty() => *self.rng.pick(&ids),
                    _ => 1,
                };
                let script = self.script(m, &addr, depth_left.min(2));
                let addr = self.spell(m, addr);
                Msg::Migrate { addr, code_id, script: Box::new(script) }
            }
            2 => {
                let mut cands: Vec<String> = self.users.clone();
                cands.extend(m.st.contracts.keys().cloned());
                cands.push("not an address".to_string());
                let admin = self.rng.pick(&cands).clone();
                Msg::UpdateAdmin { addr: self.spell(m, addr), admin: self.spell(m, admin) }
            }
            _ => Msg::ClearAdmin { addr: self.spell(m, addr) },
        }
    }

    fn sender(&mut self, m: &ChainM) -> String {
        // signers are not validated: the empty string and other non-addresses are accounts like any other
        if self.pct(4) {
            return self.rng.pick(&["", " ", "admin", "none"]).to_string();
        }
        if self.pct(3) {
            // another spelling of a user's address is another signer (an account of its own, without coins)
            let u = self.rng.pick(&self.users).clone();
            return if self.pct(70) { u.to_uppercase() } else { format!("{} ", u) };
        }
        if self.pct(8) {
            if let Some(c) = m.st.contracts.keys().next() {
                return c.clone();
            }
        }
        self.rng.pick(&self.users).clone()
    }

    /// A chain of sub-messages far deeper than the generated trees: contract calls contract calls contract ..., 12 to
    /// 22 levels, every level writing a record before it dispatches; the innermost call fails now and then and some
    /// level on the way catches it (or none does).
    fn deep_chain(&mut self, m: &ChainM) -> Option<Top> {
        let contracts: Vec<String> = m.st.contracts.keys().cloned().collect();
        if contracts.is_empty() {
            return None;
        }
        // (the scripts travel as nested JSON, five levels of nesting per call: serde_json's limit of 128 caps the depth)
        let depth = self.rng.range(12, 22);
        let mut leaf = Script { tag: 0, ..Default::default() };
        let mut me = self.rng.pick(&contracts).clone();
        self.tag += 1;
        leaf.tag = self.tag;
        self.counter += 1;
        leaf.writes.push((Binary::from(b"deep".to_vec()), Some(Binary::from(format!("leaf:{}", self.counter).into_bytes()))));
        leaf.fail = self.pct(50);
        let mut script = leaf;
        for lvl in 0..depth {
            let caller = self.rng.pick(&contracts).clone();
            self.tag += 1;
            let tag = self.tag;
            self.nonce += 1;
            let nonce = self.nonce;
            self.tag += 2;
            let mode = *self.rng.pick(&[RMode::Never, RMode::Never, RMode::Success, RMode::Always, RMode::Error]);
            let plan = ReplyPlan { nonce, on_ok: Script { tag: tag + 1, attrs: vec![("deep-ok".into(), lvl.to_string())], ..Default::default() }, on_err: Script { tag: tag + 2, attrs: vec![("deep-err".into(), lvl.to_string())], ..Default::default() } };
            let sub = Sub { id: lvl, mode, payload: Payload::Plan(Box::new(plan)), msg: Msg::Exec { addr: me.clone(), script: Box::new(script), funds: vec![] } };
            self.counter += 1;
            script = Script { tag, writes: vec![(Binary::from(b"deep".to_vec()), Some(Binary::from(format!("{}:{}", lvl, self.counter).into_bytes())))], msgs: vec![sub], data: if lvl % 5 == 0 { Some(Binary::from(vec![lvl as u8])) } else { None }, ..Default::default() };
            me = caller;
        }
        Some(Top::Exec { sender: self.users[0].clone(), msg: Msg::Exec { addr: me, script: Box::new(script), funds: vec![] }, via: ExecVia::Execute })
    }

    pub fn top(&mut self, m: &ChainM) -> Top {
        self.nodes_left = self.p.max_nodes;
        if self.rng.below(250) == 0 {
            if let Some(t) = self.deep_chain(m) {
                return t;
            }
        }
        let depth = self.rng.range(1, self.p.max_depth as u64) as usize;
        let roll = if self.pct(self.p.code_ops_pct) { 99 } else { self.rng.below(97) };
        match roll {
            0..=59 if self.pct(1) => {
                // a transfer the recipient's balance cannot hold (it already has all but 20 of 2^128 - 1)
                let amount = *self.rng.pick(&[20u128, 21, 50, 1000]);
                Top::Exec { sender: self.users[0].clone(), msg: Msg::BankSend { to: self.users[2].clone(), coins: vec![coin(amount, "uz")] }, via: if self.pct(50) { ExecVia::Helper } else { ExecVia::Execute } }
            }
            0..=59 => {
                let sender = self.sender(m);
                // for admin operations pick the right signer half of the time
                let msg = self.msg(m, &sender, depth);
                let (sender, msg) = self.fix_admin_sender(m, sender, msg);
                Top::Exec { sender, msg, via: if self.pct(25) { ExecVia::Helper } else { ExecVia::Execute } }
            }
            60..=74 => {
                let sender = self.sender(m);
                let n = self.rng.range(1, 4);
                let mut msgs: Vec<Msg> = (0..n).map(|_| self.msg(m, &sender, depth.min(3))).collect();
                // now and then the batch creates a contract and uses it (each message sees its predecessors' effects)
                if self.pct(15) {
                    let ctu = self.create_then_use(m, &sender);
                    if self.pct(50) {
                        msgs = ctu;
                    } else {
                        msgs.extend(ctu);
                    }
                }
                Top::Multi { sender, msgs }
            }
            75..=82 => {
                let addr = self.target(m);
                let script = self.script(m, &addr, depth);
                Top::Sudo { addr, script, helper: self.pct(50) }
            }
            83..=87 => {
                let to = if self.pct(10) { "not an address".to_string() } else { self.rng.pick(&self.users).clone() };
                let coins = match self.rng.below(5) {
                    0 => vec![],
                    1 => vec![coin(0, "ua")],
                    _ => vec![coin(self.rng.range_u128(1, 5000), self.rng.pick(&DENOMS).to_string())],
                };
                Top::Mint { to, coins }
            }
            88..=93 => {
                if self.pct(50) {
                    if self.pct(50) {
                        Top::SetBlock { height: 0, time_nanos: 0, chain_id: String::new(), next: true }
                    } else {
                        // only some of the fields move
                        let dh = if self.pct(50) { 0 } else { self.rng.range(1, 3) };
                        let dt = match self.rng.below(3) { 0 => 0, 1 => self.rng.range(1, 999_999_999), _ => self.rng.range(1, 100) * 1_000_000_000 };
                        let chain_id = if self.pct(30) { Some(format!("bumped-{}", self.rng.below(3))) } else { None };
                        Top::BumpBlock { dh, dt_nanos: dt, chain_id }
                    }
                } else {
                    // boundary values now and then: height 0 / max, time 0, empty chain id
                    let height = match self.rng.below(12) { 0 => 0, 1 => u64::MAX - 1_000_000, _ => self.rng.range(1, 1_000_000) };
                    let time_nanos = match self.rng.below(12) { 0 => 0, 1 => 1, _ => self.rng.range(1, 2_000_000_000) * 1_000_000_000 };
                    let chain_id = if self.pct(8) { String::new() } else { format!("chain-{}", self.rng.below(5)) };
                    Top::SetBlock { height, time_nanos, chain_id, next: false }
                }
            }
            94..=95 => Top::QueryBattery,
            96 => {
                let contracts: Vec<String> = m.st.contracts.keys().cloned().collect();
                if contracts.is_empty() {
                    Top::QueryBattery
                } else {
                    let addr = self.rng.pick(&contracts).clone();
                    let key = self.key(m, &addr);
                    self.tag += 1;
                    let value = if self.pct(25) { None } else { Some(Binary::from(format!("poke{}", self.tag).into_bytes())) };
                    Top::Poke { addr, key: Binary::from(key), value }
                }
            }
            _ => {
                let kind = match self.rng.below(4) {
                    0 => CodeKind::Lifted,
                    2 | 3 => CodeKind::Partial { reply: self.pct(50), sudo: self.pct(50), migrate: self.pct(50) },
                    1 => CodeKind::Puppet { code_tag: 50 + self.rng.below(40) as u32, checksum: Some(crate::core::hex(&match self.rng.below(8) { 0 | 1 => vec![0u8; 32], 2 => vec![0xFFu8; 32], 3 | 4 => vec![0xABu8; 32], _ => self.rng.bytes(32) })) },
                    _ => CodeKind::Puppet { code_tag: 50 + self.rng.below(40) as u32, checksum: None },
                };
                let next = m.next_code_id().unwrap_or(u64::MAX);
                match self.rng.below(6) {
                    0 => Top::DuplicateCode { id: if self.pct(20) { 999 } else { *self.rng.pick(&m.codes.keys().copied().chain([0]).collect::<Vec<_>>()) } },
                    1 => Top::StoreCode { kind, creator: Some(self.users[1].clone()), id: None },
                    2 => {
                        let big = 1_000_000 + self.rng.below(5);
                        Top::StoreCode { kind, creator: None, id: Some(if self.pct(6) { u64::MAX } else { *self.rng.pick(&[0, 1, next, next.saturating_add(3), big, 1u64 << 63]) }) }
                    }
                    _ => Top::StoreCode { kind, creator: None, id: None },
                }
            }
        }
    }

    fn fix_admin_sender(&mut self, m: &ChainM, sender: String, msg: Msg) -> (String, Msg) {
        let addr = match &msg {
            Msg::Migrate { addr, .. } | Msg::UpdateAdmin { addr, .. } | Msg::ClearAdmin { addr } | Msg::Garbled { kind: 2, addr, .. } => addr.clone(),
            _ => return (sender, msg),
        };
        if self.pct(60) {
            match m.st.contracts.get(&addr).map(|c| c.admin.clone()) {
                Some(Some(a)) => return (a, msg),
                // a contract without admin: whoever asks, also the signer whose name is the empty string
                Some(None) if self.pct(25) => return (String::new(), msg),
                _ => {}
            }
        }
        (sender, msg)
    }
}

// --- tree utilities (failure sweep) ----------------------------------------------------------------

/// Visits every script of a message tree in execution order; returns the number of scripts.
pub fn count_scripts(msg: &Msg) -> usize {
    fn in_script(s: &Script) -> usize {
        let mut n = 1;
        for sub in &s.msgs {
            n += count_scripts(&sub.msg);
            if let Payload::Plan(p) = &sub.payload {
                n += in_script(&p.on_ok) + in_script(&p.on_err);
            }
        }
        n
    }
    match msg {
        Msg::Exec { script, .. } | Msg::Inst { script, .. } | Msg::Migrate { script, .. } => in_script(script),
        _ => 0,
    }
}

/// Makes script number `k` fail and rewrites the reply modes on the path to it so that the
/// failure is not caught (Error/Always become Success/Never). Returns true if found.
pub fn fail_at(msg: &mut Msg, k: &mut usize) -> bool {
    fn in_script(s: &mut Script, k: &mut usize) -> bool {
        if *k == 0 {
            s.fail = true;
            *k = usize::MAX;
            return true;
        }
        *k -= 1;
        for sub in s.msgs.iter_mut() {
            if fail_at(&mut sub.msg, k) {
                sub.mode = match sub.mode {
                    RMode::Always => RMode::Success,
                    RMode::Error => RMode::Never,
                    m => m,
                };
                return true;
            }
            if let Payload::Plan(p) = &mut sub.payload {
                if in_script(&mut p.on_ok, k) || in_script(&mut p.on_err, k) {
                    return true;
                }
            }
        }
        false
    }
    match msg {
        Msg::Exec { script, .. } | Msg::Inst { script, .. } | Msg::Migrate { script, .. } => in_script(script, k),
        _ => false,
    }
}

/// Constructive cases: every (reply mode x child outcome x reply outcome x depth 1..3) bucket.
/// Constructive admin scenarios: contracts that administer themselves and whose migrate entry point changes their own
/// record through sub-messages (admin hand-over, admin removal, a nested migration). `admined` = (contract, its admin).
pub fn admin_matrix(m: &ChainM, admined: &[(String, String)], code_ids: &[u64], other_user: &str, tag_base: u32) -> Vec<Top> {
    let mut out = vec![];
    let mut tag = tag_base;
    let mut next = || {
        tag += 1;
        tag
    };
    // admins that are not addresses (the admin of an instantiate message is recorded as supplied): only the signer whose
    // name is exactly that string is the admin; other non-addresses, other spellings and ordinary users are strangers
    let mut n_contracts = m.st.contracts.len() as u64;
    let upper = other_user.to_uppercase();
    for (weird_admin, strangers) in [("not an address", vec!["none", "", other_user]), (upper.as_str(), vec![other_user, "not an address"])] {
        let code = code_ids[0];
        let addr = classic_address(m.api, code, n_contracts);
        n_contracts += 1;
        out.push(Top::Exec {
            sender: other_user.to_string(),
            msg: Msg::Inst { code_id: code, script: Box::new(Script { tag: next(), ..Default::default() }), funds: vec![], label: "weird-admin".into(), admin: Some(weird_admin.to_string()), salt: None },
            via: ExecVia::Execute,
        });
        for s in strangers {
            out.push(Top::Exec { sender: s.to_string(), msg: Msg::UpdateAdmin { addr: addr.clone(), admin: other_user.to_string() }, via: ExecVia::Execute });
            out.push(Top::Exec { sender: s.to_string(), msg: Msg::Migrate { addr: addr.clone(), code_id: code_ids[1], script: Box::new(Script { tag: next(), ..Default::default() }) }, via: ExecVia::Execute });
            out.push(Top::Exec { sender: s.to_string(), msg: Msg::ClearAdmin { addr: addr.clone() }, via: ExecVia::Execute });
        }
        out.push(Top::Exec { sender: weird_admin.to_string(), msg: Msg::Migrate { addr: addr.clone(), code_id: code_ids[1], script: Box::new(Script { tag: next(), ..Default::default() }) }, via: ExecVia::Execute });
        out.push(Top::Exec { sender: weird_admin.to_string(), msg: Msg::ClearAdmin { addr: addr.clone() }, via: ExecVia::Execute });
        out.push(Top::Exec { sender: weird_admin.to_string(), msg: Msg::ClearAdmin { addr }, via: ExecVia::Execute });
    }
    let sub = |msg: Msg, mode: RMode, nonce: u32| Sub { id: nonce as u64, mode, payload: Payload::Raw(Binary::from(vec![1u8])), msg };
    for (i, (x, admin)) in admined.iter().enumerate().take(3) {
        let code_a = code_ids[i % code_ids.len()];
        let code_b = code_ids[(i + 1) % code_ids.len()];
        // migrations whose payload the new code cannot read (empty, an empty object), signed by the admin: no effect
        for bytes in [Vec::new(), b"{}".to_vec()] {
            out.push(Top::Exec { sender: admin.clone(), msg: Msg::Garbled { kind: 2, addr: x.clone(), code_id: code_b, bytes: Binary::from(bytes) }, via: ExecVia::Execute });
        }
        // hand the contract to itself, then let it migrate itself while its migrate entry point changes the record
        out.push(Top::Exec { sender: admin.clone(), msg: Msg::UpdateAdmin { addr: x.clone(), admin: x.clone() }, via: ExecVia::Execute });
        // a migration while one of the contract's own sub-messages is in flight: it sends the migration of itself as a
        // sub-message with a reply — the reply (and every later call) is served by the new code
        {
            let nonce = next();
            let plan = ReplyPlan { nonce, on_ok: Script { tag: next(), ..Default::default() }, on_err: Script { tag: next(), ..Default::default() } };
            let mig = Msg::Migrate { addr: x.clone(), code_id: code_b, script: Box::new(Script { tag: next(), ..Default::default() }) };
            let outer = Script { tag: next(), msgs: vec![Sub { id: nonce as u64, mode: if i % 2 == 0 { RMode::Always } else { RMode::Success }, payload: Payload::Plan(Box::new(plan)), msg: mig }], ..Default::default() };
            out.push(Top::Exec { sender: other_user.to_string(), msg: Msg::Exec { addr: x.clone(), script: Box::new(outer), funds: vec![] }, via: ExecVia::Execute });
        }
        let inner = match i % 3 {
            0 => Msg::UpdateAdmin { addr: x.clone(), admin: other_user.to_string() },
            1 => Msg::ClearAdmin { addr: x.clone() },
            _ => Msg::Migrate { addr: x.clone(), code_id: code_b, script: Box::new(Script { tag: next(), writes: vec![(Binary::from(b"nested".to_vec()), Some(Binary::from(b"m".to_vec())))], ..Default::default() }) },
        };
        let n = next();
        let script = Script { tag: next(), writes: vec![(Binary::from(b"migrated".to_vec()), Some(Binary::from(format!("m{}", n).into_bytes())))], msgs: vec![sub(inner, if i % 2 == 0 { RMode::Never } else { RMode::Success }, n)], ..Default::default() };
        out.push(Top::Exec { sender: x.clone(), msg: Msg::Migrate { addr: x.clone(), code_id: code_a, script: Box::new(script) }, via: ExecVia::Execute });
        // whoever is admin now governs the next attempt; the old one does not
        out.push(Top::Exec { sender: x.clone(), msg: Msg::ClearAdmin { addr: x.clone() }, via: ExecVia::Execute });
        out.push(Top::Exec { sender: other_user.to_string(), msg: Msg::UpdateAdmin { addr: x.clone(), admin: admin.clone() }, via: ExecVia::Execute });
        out.push(Top::QueryBattery);
    }
    out
}

pub fn reply_matrix(users: &[String], contracts: &[String], tag_base: u32) -> Vec<Top> {
    let mut out = vec![];
    let mut tag = tag_base;
    let mut next = || {
        tag += 1;
        tag
    };
    for depth in 1..=3usize {
        for mode in [RMode::Always, RMode::Error, RMode::Success, RMode::Never] {
            for child_fails in [false, true] {
                for reply_fails in [false, true] {
                    let c = |i: usize| contracts[i % contracts.len()].clone();
                    let child = Script { tag: next(), writes: vec![(Binary::from(b"child".to_vec()), Some(Binary::from(format!("w{}", tag_base + depth as u32).into_bytes())))], data: Some(Binary::from(b"child-data".to_vec())), attrs: vec![("who".into(), "child".into())], fail: child_fails, ..Default::default() };
                    let on_ok = Script { tag: next(), probes: vec![Probe::WasmRaw { addr: c(depth), key: Binary::from(b"child".to_vec()) }, Probe::OwnGet { key: Binary::from(b"parent".to_vec()) }], writes: vec![(Binary::from(b"reply".to_vec()), Some(Binary::from(b"ok".to_vec())))], data: Some(Binary::from(b"reply-ok".to_vec())), fail: reply_fails, ..Default::default() };
                    let on_err = Script { tag: next(), probes: vec![Probe::WasmRaw { addr: c(depth), key: Binary::from(b"child".to_vec()) }, Probe::OwnGet { key: Binary::from(b"parent".to_vec()) }], writes: vec![(Binary::from(b"reply".to_vec()), Some(Binary::from(b"err".to_vec())))], fail: reply_fails, ..Default::default() };
                    let nonce = next();
                    let later = Script { tag: next(), probes: vec![Probe::WasmRaw { addr: c(depth), key: Binary::from(b"child".to_vec()) }], ..Default::default() };
                    let mut parent = Script {
                        tag: next(),
                        writes: vec![(Binary::from(b"parent".to_vec()), Some(Binary::from(format!("p{}", nonce).into_bytes())))],
                        data: Some(Binary::from(b"parent-data".to_vec())),
                        msgs: vec![
                            Sub { id: nonce as u64, mode, payload: Payload::Plan(Box::new(ReplyPlan { nonce, on_ok, on_err })), msg: Msg::Exec { addr: c(depth), script: Box::new(child), funds: vec![] } },
                            // a later sibling observes what is left of the first one
                            Sub { id: 1, mode: RMode::Never, payload: Payload::Raw(Binary::from(vec![])), msg: Msg::Exec { addr: c(depth + 1), script: Box::new(later), funds: vec![] } },
                        ],
                        ..Default::default()
                    };
                    // wrap to the requested depth; outer levels catch with Error so that the inner outcome is observable
                    for lvl in (1..depth).rev() {
                        let nonce = next();
                        let dflt = Script { tag: next(), ..Default::default() };
                        let dflt2 = Script { tag: next(), ..Default::default() };
                        parent = Script {
                            tag: next(),
                            writes: vec![(Binary::from(format!("lvl{}", lvl).into_bytes()), Some(Binary::from(b"x".to_vec())))],
                            msgs: vec![Sub { id: 0, mode: RMode::Error, payload: Payload::Plan(Box::new(ReplyPlan { nonce, on_ok: dflt, on_err: dflt2 })), msg: Msg::Exec { addr: c(lvl), script: Box::new(parent), funds: vec![] } }],
                            ..Default::default()
                        };
                    }
                    out.push(Top::Exec { sender: users[0].clone(), msg: Msg::Exec { addr: c(0), script: Box::new(parent), funds: vec![] }, via: ExecVia::Execute });
                }
            }
        }
    }
    out
}
