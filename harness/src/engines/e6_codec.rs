//! E6 — codec engine (C18): pure-function monitor over prefixes, canonical byte strings, names
//! and single-character corruptions for MockApiBech32 / MockApiBech32m / IntoBech32(m) / IntoAddr.

use crate::core::*;
use crate::rng::Rng;
use bech32::{Bech32, Bech32m, Hrp};
use cosmwasm_std::testing::MockApi;
use cosmwasm_std::{Api, CanonicalAddr};
use cw_multi_test::{IntoAddr, IntoBech32, IntoBech32m, MockApiBech32, MockApiBech32m};
use serde::{Deserialize, Serialize};

const CHARSET: &[u8] = b"qpzry9x8gf2tvdw0s3jn54khce6mua7l";

#[derive(Clone, Copy, Debug, PartialEq, Eq, Serialize, Deserialize)]
pub enum Variant {
    Bech32,
    Bech32m,
}

#[derive(Clone, Debug, Serialize, Deserialize)]
pub enum Case {
    /// round trip + must-accept + must-reject sweep for one (variant, prefix, canonical bytes)
    Address { variant: Variant, prefix: String, canonical: String, sweep: bool },
    /// addr_make / Into* for one (prefix, names)
    Names { prefix: String, names: Vec<String> },
    /// default codec (cosmwasm MockApi, used by IntoAddr) round trip
    Default { prefix: String, canonical: String },
}

fn leak(s: &str) -> &'static str {
    Box::leak(s.to_string().into_boxed_str())
}

enum AnyApi {
    B(MockApiBech32),
    M(MockApiBech32m),
}

impl AnyApi {
    fn new(v: Variant, prefix: &'static str) -> Self {
        match v {
            Variant::Bech32 => AnyApi::B(MockApiBech32::new(prefix)),
            Variant::Bech32m => AnyApi::M(MockApiBech32m::new(prefix)),
        }
    }
    fn api(&self) -> &dyn Api {
        match self {
            AnyApi::B(a) => a,
            AnyApi::M(a) => a,
        }
    }
    fn make(&self, name: &str) -> String {
        match self {
            AnyApi::B(a) => a.addr_make(name).to_string(),
            AnyApi::M(a) => a.addr_make(name).to_string(),
        }
    }
}

fn reference_encode(v: Variant, prefix: &str, data: &[u8]) -> Result<String, String> {
    let hrp = Hrp::parse(prefix).map_err(|e| e.to_string())?;
    match v {
        Variant::Bech32 => bech32::encode::<Bech32>(hrp, data).map_err(|e| e.to_string()),
        Variant::Bech32m => bech32::encode::<Bech32m>(hrp, data).map_err(|e| e.to_string()),
    }
}

/// Other strings for the same bytes: the unused padding bits of the last data symbol set (there are
/// `(5 - 8 * len % 5) % 5` of them), checksum recomputed.
fn padded_spellings(v: Variant, prefix: &str, data: &[u8]) -> Vec<String> {
    use bech32::{ByteIterExt, Fe32, Fe32IterExt};
    let pad_bits = (5 - (8 * data.len()) % 5) % 5;
    let hrp = match Hrp::parse(prefix) {
        Ok(h) => h,
        Err(_) => return vec![],
    };
    let mut out = vec![];
    for bits in 1u8..(1 << pad_bits) {
        let mut fes: Vec<Fe32> = data.iter().copied().bytes_to_fes().collect();
        let last = match fes.pop() {
            Some(l) => l,
            None => return out,
        };
        match Fe32::try_from(last.to_u8() | bits) {
            Ok(f) => fes.push(f),
            Err(_) => continue,
        }
        out.push(match v {
            Variant::Bech32 => fes.into_iter().with_checksum::<Bech32>(&hrp).chars().collect(),
            Variant::Bech32m => fes.into_iter().with_checksum::<Bech32m>(&hrp).chars().collect(),
        });
    }
    out
}

fn other(v: Variant) -> Variant {
    match v {
        Variant::Bech32 => Variant::Bech32m,
        Variant::Bech32m => Variant::Bech32,
    }
}

macro_rules! fail {
    ($sig:expr, $($arg:tt)*) => {
        return Some(($sig.to_string(), format!($($arg)*)))
    };
}

pub fn run_case(case: &Case, rep: &mut Report) -> Option<(String, String)> {
    match catch(|| run_case_inner(case, rep)) {
        Ok(r) => r,
        Err(p) => {
            if panic_in_repo(&p) {
                Some(("address-helper-panics".into(), format!("{:?}: panic {}", short_case(case), p)))
            } else {
                rep.inconclusive.push(format!("harness panic in C18 engine: {}", p));
                None
            }
        }
    }
}

fn short_case(case: &Case) -> String {
    let s = format!("{:?}", case);
    if s.len() > 300 {
        format!("{}..", s.chars().take(300).collect::<String>())
    } else {
        s
    }
}

fn run_case_inner(case: &Case, rep: &mut Report) -> Option<(String, String)> {
    match case {
        Case::Address { variant, prefix, canonical, sweep } => {
            let v = *variant;
            let bytes = unhex(canonical);
            let pfx = leak(prefix);
            let any = AnyApi::new(v, pfx);
            let api = any.api();
            rep.evaluations += 1;
            rep.bump(&format!("c18/address_cases/{:?}", v));
            rep.bump(&format!("c18/canonical_len/{}", match bytes.len() { 1 => "1", 2..=19 => "2-19", 20 => "20", 21..=31 => "21-31", 32 => "32", 33..=63 => "33-63", _ => "64" }));
            rep.bump(&format!("c18/prefix_len/{}", match prefix.len() { 1 => "1", 2..=5 => "2-5", 6..=20 => "6-20", _ => "83" }));
            // humanize is total on 1..=64 bytes and inverts canonicalize
            let h = match api.addr_humanize(&CanonicalAddr::from(bytes.clone())) {
                Ok(h) => h.to_string(),
                Err(e) => fail!("humanize-rejects-valid-bytes", "{:?} prefix {:?}: humanize({}) failed: {}", v, prefix, canonical, e),
            };
            match api.addr_canonicalize(&h) {
                Ok(c) if c.as_slice() == bytes.as_slice() => {}
                other => fail!("canonicalize-humanize-roundtrip-differs", "{:?} prefix {:?}: canonicalize(humanize({})) = {:?}", v, prefix, canonical, other.map(|c| hex(c.as_slice()))),
            }
            rep.bump("c18/roundtrip_checked");
            // the reference encoding (bech32 crate used directly) is what humanize must produce and validate must accept unchanged
            let reference = match reference_encode(v, prefix, &bytes) {
                Ok(r) => r,
                Err(e) => {
                    rep.inconclusive.push(format!("reference encoder failed for prefix {:?}: {}", prefix, e));
                    return None;
                }
            };
            if h != reference {
                fail!("humanize-differs-from-reference-encoding", "{:?} prefix {:?}: humanize({}) = {}, reference {}", v, prefix, canonical, h, reference);
            }
            match api.addr_validate(&reference) {
                Ok(a) if a.as_str() == reference => {}
                other => fail!("validate-rejects-or-alters-valid-address", "{:?} prefix {:?}: validate({}) = {:?}", v, prefix, reference, other.map(|a| a.to_string())),
            }
            rep.bump("c18/must_accept_checked");
            // the other checksum variant must be rejected
            let wrong_variant = reference_encode(other(v), prefix, &bytes).unwrap();
            if api.addr_validate(&wrong_variant).is_ok() || api.addr_canonicalize(&wrong_variant).is_ok() {
                fail!("accepts-other-checksum-variant", "{:?} prefix {:?}: accepted {} (encoded as {:?})", v, prefix, wrong_variant, other(v));
            }
            rep.bump("c18/other_variant_rejected");
            // another prefix must be rejected (same length, one char changed; a shorter and a longer one)
            let mut foreign: Vec<String> = vec![];
            let mut p1: Vec<u8> = prefix.as_bytes().to_vec();
            let idx = bytes.len() % p1.len();
            p1[idx] = if p1[idx] == b'x' { b'y' } else { b'x' };
            foreign.push(String::from_utf8(p1).unwrap());
            if prefix.len() > 1 {
                foreign.push(prefix[..prefix.len() - 1].to_string());
            }
            if prefix.len() < 83 {
                foreign.push(format!("{}a", prefix));
            }
            for fp in foreign {
                if let Ok(s) = reference_encode(v, &fp, &bytes) {
                    if api.addr_validate(&s).is_ok() || api.addr_canonicalize(&s).is_ok() {
                        fail!("accepts-foreign-prefix", "{:?} prefix {:?}: accepted {} (prefix {:?})", v, prefix, s, fp);
                    }
                    rep.bump("c18/foreign_prefix_rejected");
                }
            }
            // other spellings of the same bytes (all upper case; non-zero padding bits): whether they count as
            // "decoding under the codec" is open, but whatever validation accepts it returns unchanged
            let mut spellings = vec![("uppercase", reference.to_uppercase())];
            for s in padded_spellings(v, prefix, &bytes) {
                spellings.push(("nonzero_padding", s));
            }
            // the address with white space or a NUL around it: another string
            for (pre, post) in [(" ", ""), ("", " "), ("", "\n"), ("\t", ""), ("", "\u{0}"), ("\u{a0}", "")] {
                spellings.push(("surrounded_by_white_space", format!("{}{}{}", pre, reference, post)));
            }
            for (what, s) in spellings {
                match api.addr_validate(&s) {
                    Ok(a) if a.as_str() == s => rep.bump(&format!("c18/observation/{}_accepted_unchanged", what)),
                    Ok(a) => fail!("validate-alters-accepted-address", "{:?} prefix {:?}: validate({}) = {} ({} spelling of {})", v, prefix, s, a, what, canonical),
                    Err(_) => rep.bump(&format!("c18/observation/{}_rejected", what)),
                }
                rep.bump("c18/accepted_implies_unchanged_checked");
            }
            if *sweep {
                rep.fingerprints.insert(fp_str(&format!("{:?}/{}/{}", v, prefix, canonical)));
                let chars: Vec<u8> = reference.as_bytes().to_vec();
                let sep = reference.rfind('1').unwrap();
                let prefix_has_one = prefix.contains('1');
                for pos in 0..chars.len() {
                    // case flip of one letter => mixed case => must be rejected
                    if chars[pos].is_ascii_lowercase() {
                        let mut c = chars.clone();
                        c[pos] = c[pos].to_ascii_uppercase();
                        let s = String::from_utf8(c).unwrap();
                        if !s.bytes().any(|b| b.is_ascii_lowercase()) {
                            // the address has this one letter only: the flipped string is all upper case, not mixed
                            // case (another spelling; whatever validation accepts it returns unchanged, see above)
                            match api.addr_validate(&s) {
                                Ok(a) if a.as_str() != s => fail!("validate-alters-accepted-address", "{:?} prefix {:?}: validate({}) = {}", v, prefix, s, a),
                                _ => rep.bump("c18/observation/single_letter_address_upper_cased"),
                            }
                            continue;
                        }
                        if api.addr_validate(&s).is_ok() || api.addr_canonicalize(&s).is_ok() {
                            fail!("accepts-mixed-case", "{:?} prefix {:?}: accepted {} (char {} upper-cased)", v, prefix, s, pos);
                        }
                        rep.bump("c18/case_flip_rejected");
                    }
                    if pos > sep {
                        // data part: every other charset character
                        for &sub in CHARSET {
                            if sub == chars[pos] {
                                continue;
                            }
                            let mut c = chars.clone();
                            c[pos] = sub;
                            let s = String::from_utf8(c).unwrap();
                            if api.addr_validate(&s).is_ok() || api.addr_canonicalize(&s).is_ok() {
                                fail!("accepts-single-character-substitution", "{:?} prefix {:?}: accepted {} (position {} {} -> {})", v, prefix, s, pos, chars[pos] as char, sub as char);
                            }
                            rep.bump("c18/data_substitution_rejected");
                        }
                        // characters outside the charset (incl. '1', which re-frames the string): judged only when
                        // re-framing is impossible, i.e. for non-'1' characters
                        for &sub in b"bio_ A" {
                            let mut c = chars.clone();
                            c[pos] = sub;
                            let s = String::from_utf8(c).unwrap();
                            if api.addr_validate(&s).is_ok() {
                                fail!("accepts-invalid-character", "{:?} prefix {:?}: accepted {} (position {} -> {:?})", v, prefix, s, pos, sub as char);
                            }
                            rep.bump("c18/invalid_char_rejected");
                        }
                        let mut c = chars.clone();
                        c[pos] = b'1';
                        match api.addr_validate(&String::from_utf8(c).unwrap()) {
                            Ok(_) => rep.bump("c18/observation/separator_char_in_data_accepted"),
                            Err(_) => rep.bump("c18/observation/separator_char_in_data_rejected"),
                        }
                    } else if pos < sep && !prefix_has_one {
                        // prefix part: another valid lowercase hrp character
                        for &sub in b"qa0z-" {
                            if sub == chars[pos] {
                                continue;
                            }
                            let mut c = chars.clone();
                            c[pos] = sub;
                            let s = String::from_utf8(c).unwrap();
                            if api.addr_validate(&s).is_ok() || api.addr_canonicalize(&s).is_ok() {
                                fail!("accepts-single-character-substitution", "{:?} prefix {:?}: accepted {} (prefix position {} -> {})", v, prefix, s, pos, sub as char);
                            }
                            rep.bump("c18/prefix_substitution_rejected");
                        }
                    }
                }
                // a character of 2, 3 or 4 bytes in place of any single character (prefix, separator, data): rejected,
                // never a panic (byte offsets computed from the prefix length fall inside such a character)
                for pos in 0..chars.len() {
                    for sub in ["é", "✓", "😀"] {
                        let s = format!("{}{}{}", &reference[..pos], sub, &reference[pos + 1..]);
                        if api.addr_validate(&s).is_ok() || api.addr_canonicalize(&s).is_ok() {
                            fail!("accepts-invalid-character", "{:?} prefix {:?}: accepted {} (position {} -> {:?})", v, prefix, s, pos, sub);
                        }
                        rep.bump("c18/multibyte_char_rejected");
                    }
                }
                // every truncation of the address (down to the bare prefix, the prefix with its separator, and a few
                // characters behind it): the helpers answer, they do not panic; what they accept they return unchanged
                for cut in 0..chars.len() {
                    let s = String::from_utf8(chars[..cut].to_vec()).unwrap();
                    let _ = api.addr_canonicalize(&s);
                    match api.addr_validate(&s) {
                        Ok(a) if a.as_str() == s => rep.bump("c18/observation/truncation_accepted_unchanged"),
                        Ok(a) => fail!("validate-alters-accepted-address", "{:?} prefix {:?}: validate({}) = {} (truncation of {})", v, prefix, s, a, reference),
                        Err(_) => rep.bump("c18/truncation_rejected_without_panic"),
                    }
                }
                // insertions / deletions: tried and counted, never judged (documented Bech32 weakness)
                for pos in (sep + 1)..chars.len() {
                    let mut c = chars.clone();
                    c.insert(pos, b'q');
                    match api.addr_validate(&String::from_utf8(c).unwrap()) {
                        Ok(_) => rep.bump("c18/observation/q_insertion_accepted"),
                        Err(_) => rep.bump("c18/observation/q_insertion_rejected"),
                    }
                    let mut c = chars.clone();
                    c.remove(pos);
                    match api.addr_validate(&String::from_utf8(c).unwrap()) {
                        Ok(_) => rep.bump("c18/observation/deletion_accepted"),
                        Err(_) => rep.bump("c18/observation/deletion_rejected"),
                    }
                }
            }
            None
        }
        Case::Names { prefix, names } => {
            let pfx = leak(prefix);
            rep.evaluations += 1;
            rep.bump("c18/name_cases");
            let mut seen: std::collections::BTreeMap<String, (String, String)> = Default::default();
            for v in [Variant::Bech32, Variant::Bech32m] {
                let any = AnyApi::new(v, pfx);
                for name in names {
                    let a = any.make(name);
                    let b = AnyApi::new(v, pfx).make(name);
                    if a != b {
                        fail!("addr-make-not-deterministic", "{:?} prefix {:?} name {:?}: {} vs {}", v, prefix, name, a, b);
                    }
                    match any.api().addr_validate(&a) {
                        Ok(x) if x.as_str() == a => {}
                        other => fail!("addr-make-invalid-under-own-codec", "{:?} prefix {:?} name {:?}: validate({}) = {:?}", v, prefix, name, a, other.map(|x| x.to_string())),
                    }
                    // the into_* helpers agree with addr_make
                    let via_trait = match v {
                        Variant::Bech32 => name.as_str().into_bech32_with_prefix(pfx).to_string(),
                        Variant::Bech32m => name.as_str().into_bech32m_with_prefix(pfx).to_string(),
                    };
                    if via_trait != a {
                        fail!("into-bech32-differs-from-addr-make", "{:?} prefix {:?} name {:?}: {} vs {}", v, prefix, name, via_trait, a);
                    }
                    let key = format!("{:?}/{}", v, a);
                    if let Some((p0, n0)) = seen.get(&key) {
                        if n0 != name {
                            fail!("different-names-same-address", "{:?}: names {:?} and {:?} under prefix {:?}/{:?} give {}", v, n0, name, p0, prefix, a);
                        }
                    }
                    seen.insert(key, (prefix.clone(), name.clone()));
                    rep.bump("c18/addr_make_checked");
                    // other prefix => other address; and not valid under this codec
                    let other_pfx = if prefix.len() < 83 {
                        leak(&format!("{}x", prefix))
                    } else {
                        leak(&format!("{}{}", &prefix[..82], if prefix.ends_with('x') { "y" } else { "x" }))
                    };
                    let o = AnyApi::new(v, other_pfx).make(name);
                    if o == a || any.api().addr_validate(&o).is_ok() {
                        fail!("different-prefix-same-or-valid-address", "{:?} name {:?}: prefix {:?} -> {}, prefix {:?} -> {}", v, name, prefix, a, other_pfx, o);
                    }
                    // other variant => other address, rejected
                    let ov = AnyApi::new(other(v), pfx).make(name);
                    if ov == a || any.api().addr_validate(&ov).is_ok() {
                        fail!("other-variant-address-accepted", "{:?} prefix {:?} name {:?}: {} accepted/equal", v, prefix, name, ov);
                    }
                }
            }
            // default prefix helpers and the default codec
            for name in names {
                let d32 = name.as_str().into_bech32().to_string();
                if d32 != MockApiBech32::new("cosmwasm").addr_make(name).to_string() {
                    fail!("into-bech32-default-differs", "name {:?}", name);
                }
                let d32m = name.as_str().into_bech32m().to_string();
                if d32m != MockApiBech32m::new("cosmwasm").addr_make(name).to_string() {
                    fail!("into-bech32m-default-differs", "name {:?}", name);
                }
                let da = name.as_str().into_addr();
                let mock = MockApi::default();
                if da != mock.addr_make(name) || mock.addr_validate(da.as_str()).map(|x| x != da).unwrap_or(true) {
                    fail!("into-addr-invalid-under-default-codec", "name {:?}: {}", name, da);
                }
                let dp = name.as_str().into_addr_with_prefix(pfx);
                let mockp = MockApi::default().with_prefix(pfx);
                if dp != mockp.addr_make(name) || mockp.addr_validate(dp.as_str()).map(|x| x != dp).unwrap_or(true) {
                    fail!("into-addr-with-prefix-invalid", "prefix {:?} name {:?}: {}", prefix, name, dp);
                }
                if prefix != "cosmwasm" && (dp == da || mock.addr_validate(dp.as_str()).is_ok()) {
                    fail!("default-codec-accepts-foreign-prefix", "prefix {:?} name {:?}: {}", prefix, name, dp);
                }
                rep.bump("c18/into_addr_checked");
            }
            for i in 0..names.len() {
                for j in 0..i {
                    if names[i] != names[j] && names[i].as_str().into_addr() == names[j].as_str().into_addr() {
                        fail!("different-names-same-address", "default codec: {:?} and {:?}", names[i], names[j]);
                    }
                }
            }
            None
        }
        Case::Default { prefix, canonical } => {
            let bytes = unhex(canonical);
            let api = MockApi::default().with_prefix(leak(prefix));
            rep.evaluations += 1;
            rep.bump("c18/default_codec_cases");
            let h = match api.addr_humanize(&CanonicalAddr::from(bytes.clone())) {
                Ok(h) => h,
                Err(e) => fail!("default-humanize-rejects-valid-bytes", "prefix {:?}: humanize({}) failed: {}", prefix, canonical, e),
            };
            match api.addr_canonicalize(h.as_str()) {
                Ok(c) if c.as_slice() == bytes.as_slice() => {}
                other => fail!("default-roundtrip-differs", "prefix {:?}: canonicalize(humanize({})) = {:?}", prefix, canonical, other.map(|c| hex(c.as_slice()))),
            }
            match api.addr_validate(h.as_str()) {
                Ok(a) if a == h => {}
                other => fail!("default-validate-rejects-own-address", "prefix {:?}: validate({}) = {:?}", prefix, h, other),
            }
            None
        }
    }
}

// --- generators -------------------------------------------------------------------------------

pub fn gen_prefix(rng: &mut Rng) -> String {
    const HRP: &[u8] = b"abcdefghijklmnopqrstuvwxyz0123456789-_.~!#$%&'()*+,/:;<=>?@[]^`{|}";
    let len = match rng.below(12) {
        0 => 1,
        1 => 83,
        2 => 20,
        _ => rng.range(2, 12) as usize,
    };
    let plain = rng.chance(2, 3);
    let s: String = (0..len)
        .map(|_| if plain { (b'a' + rng.below(26) as u8) as char } else { *rng.pick(HRP) as char })
        .collect();
    // occasionally a prefix that itself contains the separator character
    if !plain && rng.chance(1, 4) && len > 2 {
        let mut b = s.into_bytes();
        let i = rng.usize_below(len);
        b[i] = b'1';
        return String::from_utf8(b).unwrap();
    }
    s
}

pub fn gen_bytes(rng: &mut Rng, len: usize) -> Vec<u8> {
    match rng.below(8) {
        0 => vec![0x00; len],
        1 => vec![0xFF; len],
        _ => rng.bytes(len),
    }
}

/// Near misses of a name: every one of them is another name and must get another address. Other letter case, padding,
/// an appended NUL, every character moved by 256 or 65 536 code points (equal low bytes), the first character's UTF-8
/// bytes read as Latin-1, a decomposed accent, the name twice, the name reversed.
pub fn name_variants(base: &str) -> Vec<String> {
    let mut v = vec![base.to_uppercase(), base.to_lowercase(), format!("{} ", base), format!(" {}", base), format!("{}\u{0}", base), format!("{}{}", base, base), base.chars().rev().collect()];
    for shift in [0x100u32, 0x200, 0x1_0000] {
        v.push(base.chars().map(|c| char::from_u32(c as u32 + shift).unwrap_or(c)).collect());
        // only the first character moved
        let mut cs: Vec<char> = base.chars().collect();
        if let Some(c0) = cs.first_mut() {
            *c0 = char::from_u32(*c0 as u32 + shift).unwrap_or(*c0);
        }
        v.push(cs.into_iter().collect());
    }
    v.push(base.bytes().map(|b| b as char).collect());
    v.push(base.replace('é', "e\u{301}").replace('e', "é"));
    v.retain(|x| x != base);
    v.sort();
    v.dedup();
    v
}

pub fn gen_name(rng: &mut Rng) -> String {
    match rng.below(10) {
        0 => String::new(),
        1 => "é ü 名前 🦀".chars().take(rng.range(1, 8) as usize).collect(),
        2 => " ".repeat(rng.range(1, 3) as usize),
        3 => format!("owner{}", rng.below(3)),
        _ => {
            let n = rng.range(1, 24) as usize;
            (0..n).map(|_| (b' ' + rng.below(95) as u8) as char).collect()
        }
    }
}
