//! E2b — namespaced view engine (C07): `App::prefixed_storage(_mut)` /
//! `prefixed_multilevel_storage(_mut)` / `storage_mut()` against a raw `BTreeMap` and an
//! independent length-prefix encoder.

use crate::core::*;
use crate::rng::Rng;
use cosmwasm_std::{Order, Storage};
use cosmwasm_std::testing::MockApi;
use cosmwasm_std::Empty;
use cw_multi_test::{AppBuilder, BankKeeper, DistributionKeeper, FailingModule, GovFailingModule, IbcFailingModule, StakeKeeper, StargateFailing, WasmKeeper};

/// The base store under the views: a user-supplied store (AppBuilder::with_storage) that is an ordered map and
/// nothing else — unlike cosmwasm_std's MemoryStorage it also keeps empty values, so a view's set(key, "") is observable.
#[derive(Default)]
pub struct LooseStore(BTreeMap<Vec<u8>, Vec<u8>>);

impl Storage for LooseStore {
    fn get(&self, key: &[u8]) -> Option<Vec<u8>> {
        self.0.get(key).cloned()
    }
    fn range<'a>(&'a self, start: Option<&[u8]>, end: Option<&[u8]>, order: Order) -> Box<dyn Iterator<Item = (Vec<u8>, Vec<u8>)> + 'a> {
        if let (Some(s), Some(e)) = (start, end) {
            if s > e {
                return Box::new(std::iter::empty());
            }
        }
        let lo = start.map_or(std::ops::Bound::Unbounded, |s| std::ops::Bound::Included(s.to_vec()));
        let hi = end.map_or(std::ops::Bound::Unbounded, |e| std::ops::Bound::Excluded(e.to_vec()));
        let it = self.0.range((lo, hi)).map(|(k, v)| (k.clone(), v.clone()));
        match order {
            Order::Ascending => Box::new(it),
            Order::Descending => Box::new(it.rev()),
        }
    }
    fn set(&mut self, key: &[u8], value: &[u8]) {
        self.0.insert(key.to_vec(), value.to_vec());
    }
    fn remove(&mut self, key: &[u8]) {
        self.0.remove(key);
    }
}

pub type App = cw_multi_test::App<BankKeeper, MockApi, LooseStore, FailingModule<Empty, Empty, Empty>, WasmKeeper<Empty, Empty>, StakeKeeper, DistributionKeeper, IbcFailingModule, GovFailingModule, StargateFailing>;

pub fn new_app() -> App {
    AppBuilder::new().with_storage(LooseStore::default()).build(|_, _, _| {})
}
use serde::{Deserialize, Serialize};
use std::collections::BTreeMap;

type Map = BTreeMap<Vec<u8>, Vec<u8>>;

/// Independent encoder: 2-byte big-endian length + bytes, per segment.
pub fn enc_path(path: &[Vec<u8>]) -> Vec<u8> {
    let mut out = vec![];
    for seg in path {
        assert!(seg.len() <= 0xFFFF);
        out.push((seg.len() >> 8) as u8);
        out.push((seg.len() & 0xFF) as u8);
        out.extend_from_slice(seg);
    }
    out
}

#[derive(Clone, Debug, Serialize, Deserialize)]
pub enum Access {
    /// prefixed_storage / prefixed_storage_mut (exactly one segment)
    Single,
    /// prefixed_multilevel_storage(_mut)
    Multi,
}

#[derive(Clone, Debug, Serialize, Deserialize)]
pub enum VOp {
    Set { path: Vec<String>, access: Access, key: String, value: String },
    Remove { path: Vec<String>, access: Access, key: String },
    RawSet { key: String, value: String },
    RawRemove { key: String },
    /// try to write through the read-only view: must panic, must not change anything
    ReadOnlyWrite { path: Vec<String>, access: Access, key: String, remove: bool },
    /// several operations on ONE held view object (a view must stay the same window however it has been used)
    Session { path: Vec<String>, access: Access, mutable: bool, steps: Vec<SStep> },
    /// compare the view of `path` (and of `other`) completely
    Inspect { path: Vec<String>, access: Access, other: Vec<String> },
}

#[derive(Clone, Debug, Serialize, Deserialize)]
pub enum SStep {
    Set { key: String, value: String },
    /// write the value the key already has (a redundant write); a fresh value if the key is absent
    Rewrite { key: String },
    Remove { key: String },
    Get { key: String },
    Range { start: Option<String>, end: Option<String>, desc: bool },
}

#[derive(Clone, Debug, Serialize, Deserialize)]
pub struct Case {
    pub ops: Vec<VOp>,
    pub check_seed: u64,
}

fn path_of(p: &[String]) -> Vec<Vec<u8>> {
    p.iter().map(|s| unhex(s)).collect()
}

fn window(raw: &Map, prefix: &[u8]) -> Map {
    raw.iter()
        .filter(|(k, _)| k.starts_with(prefix))
        .map(|(k, v)| (k[prefix.len()..].to_vec(), v.clone()))
        .collect()
}

fn model_range(m: &Map, start: Option<&[u8]>, end: Option<&[u8]>, order: Order) -> Vec<(Vec<u8>, Vec<u8>)> {
    let mut v: Vec<(Vec<u8>, Vec<u8>)> = m
        .iter()
        .filter(|(k, _)| start.map_or(true, |s| k.as_slice() >= s) && end.map_or(true, |e| k.as_slice() < e))
        .map(|(k, v)| (k.clone(), v.clone()))
        .collect();
    if order == Order::Descending {
        v.reverse();
    }
    v
}

fn with_view<T>(app: &App, path: &[Vec<u8>], access: &Access, f: impl FnOnce(&dyn Storage) -> T) -> T {
    match access {
        Access::Single => {
            let v = app.prefixed_storage(&path[0]);
            f(v.as_ref())
        }
        Access::Multi => {
            let segs: Vec<&[u8]> = path.iter().map(|s| s.as_slice()).collect();
            let v = app.prefixed_multilevel_storage(&segs);
            f(v.as_ref())
        }
    }
}

fn with_view_mut<T>(app: &mut App, path: &[Vec<u8>], access: &Access, f: impl FnOnce(&mut dyn Storage) -> T) -> T {
    match access {
        Access::Single => {
            let mut v = app.prefixed_storage_mut(&path[0]);
            f(v.as_mut())
        }
        Access::Multi => {
            let segs: Vec<&[u8]> = path.iter().map(|s| s.as_slice()).collect();
            let mut v = app.prefixed_multilevel_storage_mut(&segs);
            f(v.as_mut())
        }
    }
}

fn path_class(path: &[Vec<u8>]) -> String {
    let enc = enc_path(path);
    format!(
        "segs{}{}{}{}",
        path.len(),
        if path.iter().any(|s| s.is_empty()) { "+empty" } else { "" },
        if !enc.is_empty() && enc.iter().all(|b| *b == 0xFF) { "+allFF" } else if enc.last() == Some(&0xFF) { "+endFF" } else { "" },
        if path.iter().any(|s| s.len() >= 256) { "+long" } else { "" }
    )
}

struct Run<'a> {
    rep: &'a mut Report,
    rng: Rng,
    failed: Option<(String, String)>,
}

impl<'a> Run<'a> {
    fn fail(&mut self, sig: String, detail: String) {
        if self.failed.is_none() {
            self.failed = Some((sig, detail));
        }
    }

    fn compare_raw(&mut self, app: &App, raw: &Map, what: &str) {
        if self.failed.is_some() {
            return;
        }
        let got: Vec<_> = app.storage().range(None, None, Order::Ascending).collect();
        let want: Vec<_> = raw.clone().into_iter().collect();
        self.rep.bump("c07/whole_store_compared");
        if got != want {
            let gm: Map = got.into_iter().collect();
            let mut diff = vec![];
            for (k, v) in &gm {
                if raw.get(k) != Some(v) {
                    diff.push(format!("unexpected/changed raw {}={}", short(k), short(v)));
                }
            }
            for k in raw.keys() {
                if !gm.contains_key(k) {
                    diff.push(format!("missing raw {}", short(k)));
                }
            }
            self.fail("view-op-touched-other-raw-keys".into(), format!("{}: {}", what, diff.join("; ")));
        }
    }

    fn compare_view(&mut self, app: &App, raw: &Map, path: &[Vec<u8>], access: &Access, full: bool) {
        if self.failed.is_some() {
            return;
        }
        let prefix = enc_path(path);
        let win = window(raw, &prefix);
        let class = path_class(path);
        // bounds universe: keys of the window, neighbours, some fixed
        let mut uni: Vec<Vec<u8>> = win.keys().cloned().collect();
        for k in win.keys().take(6) {
            let mut e = k.clone();
            e.push(0);
            uni.push(e);
            if !k.is_empty() {
                uni.push(k[..k.len() - 1].to_vec());
            }
        }
        uni.push(vec![]);
        uni.push(vec![0x00]);
        uni.push(vec![0xFF]);
        uni.push(vec![0xFF, 0xFF, 0xFF]);
        uni.sort();
        uni.dedup();
        if uni.len() > 24 && !full {
            let mut keep = vec![];
            for _ in 0..24 {
                keep.push(uni[self.rng.usize_below(uni.len())].clone());
            }
            uni = keep;
            uni.sort();
            uni.dedup();
        }
        // gets
        for k in &uni {
            let got = with_view(app, path, access, |v| v.get(k));
            self.rep.bump("c07/get_compared");
            if got != win.get(k).cloned() {
                self.fail(
                    format!("view-get-differs:{}", class),
                    format!("path {:?} get({}) = {:?}, model {:?}", show_path(path), short(k), got.map(|v| short(&v)), win.get(k).map(|v| short(v))),
                );
                return;
            }
        }
        let n = uni.len() + 1;
        for i in 0..n {
            for j in 0..n {
                // always include (None,None); otherwise sample when not full
                let unbounded = i == n - 1 && j == n - 1;
                if !full && !unbounded && !self.rng.chance(1, 3) {
                    continue;
                }
                let s = if i == n - 1 { None } else { Some(uni[i].clone()) };
                let e = if j == n - 1 { None } else { Some(uni[j].clone()) };
                for order in [Order::Ascending, Order::Descending] {
                    let r = catch(|| with_view(app, path, access, |v| v.range(s.as_deref(), e.as_deref(), order).collect::<Vec<_>>()));
                    let got = match r {
                        Ok(g) => g,
                        Err(p) => {
                            self.fail(format!("view-range-panics:{}", class), format!("path {:?} range({:?},{:?},{:?}) panicked: {}", show_path(path), s.as_ref().map(|x| short(x)), e.as_ref().map(|x| short(x)), order, p));
                            return;
                        }
                    };
                    let want = model_range(&win, s.as_deref(), e.as_deref(), order);
                    self.rep.bump("c07/range_compared");
                    if got == want && self.rep.count("c07/range_compared") % 5 == 0 {
                        // the derived iterators must be projections of the same window
                        let ks: Vec<Vec<u8>> = with_view(app, path, access, |v| v.range_keys(s.as_deref(), e.as_deref(), order).collect());
                        let vs: Vec<Vec<u8>> = with_view(app, path, access, |v| v.range_values(s.as_deref(), e.as_deref(), order).collect());
                        self.rep.bump("c07/range_keys_values_compared");
                        if ks != want.iter().map(|x| x.0.clone()).collect::<Vec<_>>() || vs != want.iter().map(|x| x.1.clone()).collect::<Vec<_>>() {
                            self.fail(format!("view-range-keys-or-values-differ:{}", class), format!("path {:?} range_keys/range_values({:?},{:?},{:?}) differ from the window", show_path(path), s.as_ref().map(|x| short(x)), e.as_ref().map(|x| short(x)), order));
                            return;
                        }
                    }
                    if got == want && !want.is_empty() && self.rep.count("c07/range_compared") % 5 == 1 {
                        // advancing the iterator other than by next() walks the same window
                        let n = (self.rep.count("c07/range_compared") as usize / 5) % (want.len() + 1);
                        let (nth, skipped, stepped, last, count) = with_view(app, path, access, |v| {
                            (
                                v.range(s.as_deref(), e.as_deref(), order).nth(n),
                                v.range(s.as_deref(), e.as_deref(), order).skip(n).collect::<Vec<_>>(),
                                v.range(s.as_deref(), e.as_deref(), order).step_by(2).collect::<Vec<_>>(),
                                v.range(s.as_deref(), e.as_deref(), order).last(),
                                v.range(s.as_deref(), e.as_deref(), order).count(),
                            )
                        });
                        self.rep.bump("c07/iterator_adaptors_compared");
                        if nth != want.get(n).cloned() || skipped != want.iter().skip(n).cloned().collect::<Vec<_>>() || stepped != want.iter().step_by(2).cloned().collect::<Vec<_>>() || last != want.last().cloned() || count != want.len() {
                            self.fail(format!("view-range-iterator-advanced-by-nth-skip-or-step-differs:{}", class), format!("path {:?} range({:?},{:?},{:?}) advanced with nth({}) / skip / step_by / last / count does not walk the window", show_path(path), s.as_ref().map(|x| short(x)), e.as_ref().map(|x| short(x)), order, n));
                            return;
                        }
                    }
                    if got != want {
                        let bound_class = match (&s, &e) {
                            (None, None) => "unbounded",
                            (Some(_), None) => "open-end",
                            (None, Some(_)) => "open-start",
                            _ => "bounded",
                        };
                        self.fail(
                            format!("view-range-differs:{}:{}", class, bound_class),
                            format!(
                                "path {:?} ({:?}) range({:?},{:?},{:?}) yields {} entries {:?}, raw window has {} {:?}",
                                show_path(path),
                                access,
                                s.as_ref().map(|x| short(x)),
                                e.as_ref().map(|x| short(x)),
                                order,
                                got.len(),
                                got.iter().take(4).map(|(k, v)| format!("{}={}", short(k), short(v))).collect::<Vec<_>>(),
                                want.len(),
                                want.iter().take(4).map(|(k, v)| format!("{}={}", short(k), short(v))).collect::<Vec<_>>()
                            ),
                        );
                        return;
                    }
                }
            }
        }
        self.rep.bump(&format!("c07/views_compared/{}", class));
        if !win.is_empty() {
            self.rep.fingerprints.insert(fp(&[prefix.as_slice(), &[win.len() as u8]].concat()));
        }
    }
}

fn short(b: &[u8]) -> String {
    if b.len() <= 24 {
        hex(b)
    } else {
        format!("{}..({} bytes)", hex(&b[..12]), b.len())
    }
}

fn show_path(p: &[Vec<u8>]) -> Vec<String> {
    p.iter().map(|s| short(s)).collect()
}

pub fn run_case(case: &Case, rep: &mut Report) -> Option<(String, String)> {
    let mut app = new_app();
    let mut raw = Map::new();
    let mut run = Run { rep, rng: Rng::new(case.check_seed), failed: None };
    for (i, op) in case.ops.iter().enumerate() {
        if run.failed.is_some() {
            break;
        }
        run.rep.evaluations += 1;
        match op {
            VOp::Set { path, access, key, value } => {
                let p = path_of(path);
                let (k, v) = (unhex(key), unhex(value));
                let r = catch(|| with_view_mut(&mut app, &p, access, |s| s.set(&k, &v)));
                if let Err(e) = r {
                    run.fail(format!("view-set-panics:{}", path_class(&p)), format!("op #{} set panicked: {}", i, e));
                    break;
                }
                let mut rk = enc_path(&p);
                rk.extend_from_slice(&k);
                raw.insert(rk, v);
                run.rep.bump("c07/op_set");
                run.compare_raw(&app, &raw, &format!("after op #{} set via {:?}", i, show_path(&p)));
                run.compare_view(&app, &raw, &p, access, false);
            }
            VOp::Remove { path, access, key } => {
                let p = path_of(path);
                let k = unhex(key);
                let r = catch(|| with_view_mut(&mut app, &p, access, |s| s.remove(&k)));
                if let Err(e) = r {
                    run.fail(format!("view-remove-panics:{}", path_class(&p)), format!("op #{} remove panicked: {}", i, e));
                    break;
                }
                let mut rk = enc_path(&p);
                rk.extend_from_slice(&k);
                raw.remove(&rk);
                run.rep.bump("c07/op_remove");
                run.compare_raw(&app, &raw, &format!("after op #{} remove via {:?}", i, show_path(&p)));
                run.compare_view(&app, &raw, &p, access, false);
            }
            VOp::RawSet { key, value } => {
                app.storage_mut().set(&unhex(key), &unhex(value));
                raw.insert(unhex(key), unhex(value));
                run.rep.bump("c07/op_raw_set");
                run.compare_raw(&app, &raw, &format!("after op #{} raw set", i));
            }
            VOp::RawRemove { key } => {
                app.storage_mut().remove(&unhex(key));
                raw.remove(&unhex(key));
                run.rep.bump("c07/op_raw_remove");
            }
            VOp::ReadOnlyWrite { path, access, key, remove } => {
                let p = path_of(path);
                let k = unhex(key);
                let remove = *remove;
                // every other attempt writes what is there already (a write that would change nothing is a write)
                let mut raw_key = enc_path(&p);
                raw_key.extend_from_slice(&k);
                let value: Vec<u8> = match raw.get(&raw_key) {
                    Some(v) if i % 2 == 0 => {
                        run.rep.bump("c07/readonly_write_attempts_with_the_value_already_there");
                        v.clone()
                    }
                    _ => b"x".to_vec(),
                };
                // a read-only view is handed out as Box<dyn Storage>; a write must be rejected (panic)
                let r = catch(|| match access {
                    Access::Single => {
                        let mut v = app.prefixed_storage(&p[0]);
                        if remove { v.remove(&k) } else { v.set(&k, &value) }
                    }
                    Access::Multi => {
                        let segs: Vec<&[u8]> = p.iter().map(|s| s.as_slice()).collect();
                        let mut v = app.prefixed_multilevel_storage(&segs);
                        if remove { v.remove(&k) } else { v.set(&k, &value) }
                    }
                });
                run.rep.bump("c07/readonly_write_attempts");
                if r.is_ok() {
                    run.fail("readonly-view-accepted-write".into(), format!("op #{}: read-only view of {:?} accepted {}", i, show_path(&p), if remove { "remove" } else { "set" }));
                }
                run.compare_raw(&app, &raw, &format!("after op #{} rejected read-only write", i));
            }
            VOp::Session { path, access, mutable, steps } => {
                let p = path_of(path);
                let prefix = enc_path(&p);
                let class = path_class(&p);
                let mut model = raw.clone();
                let mut bad: Option<(String, String)> = None;
                let mut counts = (0u64, 0u64);
                let r = catch(|| {
                    let segs: Vec<&[u8]> = p.iter().map(|s| s.as_slice()).collect();
                    let mut view: Box<dyn Storage + '_> = match (access, *mutable) {
                        (Access::Single, true) => app.prefixed_storage_mut(&p[0]),
                        (Access::Multi, true) => app.prefixed_multilevel_storage_mut(&segs),
                        (Access::Single, false) => app.prefixed_storage(&p[0]),
                        (Access::Multi, false) => app.prefixed_multilevel_storage(&segs),
                    };
                    for (j, st) in steps.iter().enumerate() {
                        let rk = |k: &[u8]| [prefix.clone(), k.to_vec()].concat();
                        match st {
                            SStep::Set { key, value } if *mutable => {
                                view.set(&unhex(key), &unhex(value));
                                model.insert(rk(&unhex(key)), unhex(value));
                                counts.0 += 1;
                            }
                            SStep::Rewrite { key } if *mutable => {
                                let k = unhex(key);
                                let v = model.get(&rk(&k)).cloned().unwrap_or_else(|| b"rw".to_vec());
                                view.set(&k, &v);
                                model.insert(rk(&k), v);
                                counts.0 += 1;
                            }
                            SStep::Remove { key } if *mutable => {
                                view.remove(&unhex(key));
                                model.remove(&rk(&unhex(key)));
                                counts.0 += 1;
                            }
                            SStep::Set { key, .. } | SStep::Rewrite { key } | SStep::Remove { key } | SStep::Get { key } => {
                                let k = unhex(key);
                                let got = view.get(&k);
                                counts.1 += 1;
                                if got != model.get(&rk(&k)).cloned() {
                                    bad = Some((format!("held-view-get-differs:{}", class), format!("op #{} step {}: held view of {:?} get({}) = {:?}, raw store has {:?}", i, j, show_path(&p), short(&k), got.map(|v| short(&v)), model.get(&rk(&k)).map(|v| short(v)))));
                                    return;
                                }
                            }
                            SStep::Range { start, end, desc } => {
                                let (s, e) = (start.as_ref().map(|x| unhex(x)), end.as_ref().map(|x| unhex(x)));
                                let order = if *desc { Order::Descending } else { Order::Ascending };
                                let got: Vec<(Vec<u8>, Vec<u8>)> = view.range(s.as_deref(), e.as_deref(), order).collect();
                                let want = model_range(&window(&model, &prefix), s.as_deref(), e.as_deref(), order);
                                counts.1 += 1;
                                if got != want {
                                    bad = Some((format!("held-view-range-differs:{}", class), format!("op #{} step {}: held view of {:?} range({:?},{:?},{:?}) yields {} entries, raw window has {}", i, j, show_path(&p), s.as_ref().map(|x| short(x)), e.as_ref().map(|x| short(x)), order, got.len(), want.len())));
                                    return;
                                }
                            }
                        }
                    }
                });
                run.rep.add("c07/held_view_writes", counts.0);
                run.rep.add("c07/held_view_reads_compared", counts.1);
                run.rep.bump(if *mutable { "c07/op_session_mutable" } else { "c07/op_session_readonly" });
                if let Err(e) = r {
                    run.fail(format!("held-view-panics:{}", class), format!("op #{} session on {:?} panicked: {}", i, show_path(&p), e));
                    break;
                }
                if let Some((sig, d)) = bad {
                    run.fail(sig, d);
                    break;
                }
                raw = model;
                run.compare_raw(&app, &raw, &format!("after op #{} session on {:?}", i, show_path(&p)));
                run.compare_view(&app, &raw, &p, access, false);
            }
            VOp::Inspect { path, access, other } => {
                let p = path_of(path);
                let q = path_of(other);
                run.compare_view(&app, &raw, &p, access, true);
                run.compare_view(&app, &raw, &q, &Access::Multi, false);
                // relation between the two windows (encoder independent of the crate)
                let (ep, eq) = (enc_path(&p), enc_path(&q));
                let rel = if p == q {
                    "equal"
                } else if q.len() > p.len() && q[..p.len()] == p[..] {
                    "q-extends-p"
                } else if p.len() > q.len() && p[..q.len()] == q[..] {
                    "p-extends-q"
                } else {
                    "unrelated"
                };
                run.rep.bump(&format!("c07/path_pairs/{}", rel));
                if rel == "unrelated" && run.failed.is_none() {
                    // no raw key may be visible through both views
                    let a: Vec<Vec<u8>> = with_view(&app, &p, access, |v| v.range(None, None, Order::Ascending).map(|(k, _)| [ep.clone(), k].concat()).collect());
                    let b: Vec<Vec<u8>> = with_view(&app, &q, &Access::Multi, |v| v.range(None, None, Order::Ascending).map(|(k, _)| [eq.clone(), k].concat()).collect());
                    if let Some(k) = a.iter().find(|k| b.contains(k)) {
                        run.fail("unrelated-views-overlap".into(), format!("raw key {} visible through {:?} and {:?}", short(k), show_path(&p), show_path(&q)));
                    }
                } else if rel == "q-extends-p" && run.failed.is_none() {
                    // q's window must be exactly the sub-window of p's view under enc(rest)
                    let rest = enc_path(&q[p.len()..]);
                    let sub: Vec<(Vec<u8>, Vec<u8>)> = with_view(&app, &p, access, |v| {
                        v.range(None, None, Order::Ascending).filter(|(k, _)| k.starts_with(&rest)).map(|(k, v)| (k[rest.len()..].to_vec(), v)).collect()
                    });
                    let qv: Vec<(Vec<u8>, Vec<u8>)> = with_view(&app, &q, &Access::Multi, |v| v.range(None, None, Order::Ascending).collect());
                    // (if p's unbounded range is itself wrong, compare_view above already reported it)
                    if sub != qv && run.failed.is_none() {
                        run.fail("nested-view-not-subwindow".into(), format!("{:?} is not the sub-window of {:?}", show_path(&q), show_path(&p)));
                    }
                }
            }
        }
    }
    run.failed.take()
}

// ---------------------------------------------------------------------------------------------
// generator
// ---------------------------------------------------------------------------------------------

fn seg_pool(rng: &mut Rng, allow_huge: bool) -> Vec<u8> {
    match rng.below(if allow_huge { 40 } else { 38 }) {
        0..=3 => vec![],
        4..=7 => b"a".to_vec(),
        8..=10 => b"ab".to_vec(),
        11..=12 => vec![0x00],
        13..=14 => vec![0x00, 0x01],
        15 => vec![0x00, 0x01, b'a'],
        16..=18 => vec![0xFF],
        19..=20 => vec![0xFF, 0xFF],
        21..=23 => b"wasm".to_vec(),
        24..=26 => b"bank".to_vec(),
        27..=28 => b"b".to_vec(),
        29 => b"contract_data/x".to_vec(),
        30..=31 => vec![if rng.chance(1, 2) { 0x00 } else { 0xFF }; 256],
        32..=33 => vec![0xFF; 255],
        34..=37 => {
            let n = rng.range(1, 3) as usize;
            (0..n).map(|_| *rng.pick(&[0x00u8, 0x01, b'a', b'b', 0xFF])).collect()
        }
        _ => vec![if rng.chance(1, 2) { 0x00 } else { 0xFF }; 65535],
    }
}

fn gen_path(rng: &mut Rng, allow_huge: bool) -> Vec<Vec<u8>> {
    let n = match rng.below(10) {
        0 => 0,
        1..=4 => 1,
        5..=7 => 2,
        _ => 3,
    };
    (0..n).map(|_| seg_pool(rng, allow_huge)).collect()
}

fn gen_key(rng: &mut Rng, paths: &[Vec<Vec<u8>>]) -> Vec<u8> {
    match rng.below(10) {
        0 => vec![],
        1..=2 => {
            // a key that spells another namespace's encoded prefix (+ suffix)
            let p = rng.pick(paths).clone();
            let mut k = enc_path(&p);
            if k.len() > 600 {
                k.truncate(600);
            }
            if rng.chance(1, 2) {
                k.push(*rng.pick(&[0x00u8, b'a', 0xFF]));
            }
            k
        }
        3 => vec![0xFF; rng.range(1, 3) as usize],
        4 => {
            // keys that agree on 7 to 17 bytes and differ behind them (in bytes on either side of 0x80)
            let mut k = vec![0x70u8; *rng.pick(&[7usize, 8, 9, 15, 16, 17])];
            k.push(*rng.pick(&[0x00u8, 0x01, 0x7F, 0x80, 0xFF]));
            k
        }
        _ => {
            let n = rng.range(1, 3) as usize;
            (0..n).map(|_| *rng.pick(&[0x00u8, 0x01, b'a', b'b', 0xFF])).collect()
        }
    }
}

pub fn gen_random(rng: &mut Rng, allow_huge: bool) -> Case {
    let npaths = rng.range(2, 6) as usize;
    let mut paths: Vec<Vec<Vec<u8>>> = (0..npaths).map(|_| gen_path(rng, allow_huge)).collect();
    // add extensions / siblings so that nesting and near-collisions occur
    let base = rng.pick(&paths).clone();
    let mut ext = base.clone();
    ext.push(seg_pool(rng, false));
    paths.push(ext);
    if rng.chance(1, 2) {
        paths.push(vec![]);
    }
    let hexp = |p: &Vec<Vec<u8>>| p.iter().map(|s| hex(s)).collect::<Vec<_>>();
    let access = |rng: &mut Rng, p: &Vec<Vec<u8>>| if p.len() == 1 && rng.chance(1, 2) { Access::Single } else { Access::Multi };
    let n = rng.range(4, 40) as usize;
    let mut ops = vec![];
    let mut counter = 0;
    for _ in 0..n {
        let p = rng.pick(&paths).clone();
        let a = access(rng, &p);
        let k = gen_key(rng, &paths);
        counter += 1;
        // now and then the empty value (the base store keeps it; a view hands it through like any other)
        let v = if rng.chance(1, 12) { String::new() } else { hex(format!("v{}", counter).as_bytes()) };
        match rng.below(20) {
            0..=8 => ops.push(VOp::Set { path: hexp(&p), access: a, key: hex(&k), value: v }),
            9..=11 => ops.push(VOp::Remove { path: hexp(&p), access: a, key: hex(&k) }),
            12..=13 => {
                // raw write: either inside some view's window or anywhere
                let mut rk = if rng.chance(2, 3) { enc_path(&rng.pick(&paths).clone()) } else { vec![] };
                rk.extend_from_slice(&k);
                if rk.len() > 70000 {
                    rk.truncate(70000);
                }
                ops.push(VOp::RawSet { key: hex(&rk), value: v })
            }
            14 => {
                let mut rk = enc_path(&rng.pick(&paths).clone());
                rk.extend_from_slice(&k);
                ops.push(VOp::RawRemove { key: hex(&rk) })
            }
            16 | 17 => {
                let n = rng.range(2, 9) as usize;
                let mutable = rng.chance(4, 5);
                let mut steps = vec![];
                let mut recent: Vec<Vec<u8>> = vec![];
                for _ in 0..n {
                    let k = if !recent.is_empty() && rng.chance(1, 2) { rng.pick(&recent).clone() } else { gen_key(rng, &paths) };
                    recent.push(k.clone());
                    counter += 1;
                    steps.push(match rng.below(10) {
                        0..=2 => SStep::Set { key: hex(&k), value: hex(format!("s{}", counter).as_bytes()) },
                        3..=4 => SStep::Rewrite { key: hex(&k) },
                        5 => SStep::Remove { key: hex(&k) },
                        6..=7 => SStep::Get { key: hex(&k) },
                        _ => SStep::Range { start: if rng.chance(1, 2) { Some(hex(&k)) } else { None }, end: if rng.chance(1, 3) { Some(hex(&gen_key(rng, &paths))) } else { None }, desc: rng.chance(1, 2) },
                    });
                }
                ops.push(VOp::Session { path: hexp(&p), access: a, mutable, steps })
            }
            15 => ops.push(VOp::ReadOnlyWrite { path: hexp(&p), access: a, key: hex(&k), remove: rng.chance(1, 2) }),
            _ => {
                let q = rng.pick(&paths).clone();
                ops.push(VOp::Inspect { path: hexp(&p), access: a, other: hexp(&q) })
            }
        }
    }
    // always finish by inspecting every path once
    for p in &paths {
        let a = access(rng, p);
        let q = rng.pick(&paths).clone();
        ops.push(VOp::Inspect { path: hexp(p), access: a, other: hexp(&q) });
    }
    Case { ops, check_seed: rng.next_u64() }
}

/// Constructive cases: every path shape gets at least one populated, fully inspected view.
pub fn templates() -> Vec<Case> {
    let shapes: Vec<Vec<Vec<u8>>> = vec![
        vec![],
        vec![vec![]],
        vec![b"a".to_vec()],
        vec![vec![0xFF]],
        vec![vec![0xFF, 0xFF]],
        vec![b"a".to_vec(), b"b".to_vec()],
        vec![b"a".to_vec(), vec![]],
        vec![vec![], vec![]],
        vec![b"wasm".to_vec(), b"contract_data/x".to_vec()],
        vec![vec![0xFF; 255]],
        vec![vec![0xFF; 256]],
        vec![vec![0xFF; 65535]],
        vec![vec![0x00; 65535], b"a".to_vec()],
        vec![b"a".to_vec(), vec![0xFF], vec![0xFF, 0xFF]],
    ];
    let hexp = |p: &Vec<Vec<u8>>| p.iter().map(|s| hex(s)).collect::<Vec<_>>();
    let mut out = vec![];
    for p in &shapes {
        let mut ops = vec![];
        for (i, k) in [&b""[..], b"a", b"abc", &[0x00], &[0xFF], &[0xFF, 0xFF]].iter().enumerate() {
            ops.push(VOp::Set { path: hexp(p), access: Access::Multi, key: hex(k), value: hex(format!("t{}", i).as_bytes()) });
        }
        // neighbours just outside the window
        let e = enc_path(p);
        if !e.is_empty() {
            let mut below = e.clone();
            let l = below.len();
            if below[l - 1] > 0 {
                below[l - 1] -= 1;
                ops.push(VOp::RawSet { key: hex(&below), value: hex(b"below") });
            }
            let mut shorter = e.clone();
            shorter.pop();
            ops.push(VOp::RawSet { key: hex(&shorter), value: hex(b"shorter") });
        }
        ops.push(VOp::RawSet { key: hex(&[0xFF, 0xFF, 0xFF]), value: hex(b"top") });
        ops.push(VOp::RawSet { key: hex(&[]), value: hex(b"emptykey") });
        ops.push(VOp::Remove { path: hexp(p), access: Access::Multi, key: hex(b"a") });
        ops.push(VOp::ReadOnlyWrite { path: hexp(p), access: Access::Multi, key: hex(b"zz"), remove: false });
        ops.push(VOp::ReadOnlyWrite { path: hexp(p), access: Access::Multi, key: hex(b"abc"), remove: true });
        let mut ext = p.clone();
        ext.push(b"q".to_vec());
        ops.push(VOp::Set { path: hexp(&ext), access: Access::Multi, key: hex(b"k"), value: hex(b"nested") });
        ops.push(VOp::Inspect { path: hexp(p), access: Access::Multi, other: hexp(&ext) });
        if p.len() == 1 {
            ops.push(VOp::Inspect { path: hexp(p), access: Access::Single, other: vec![] });
            ops.push(VOp::Set { path: hexp(p), access: Access::Single, key: hex(b"s"), value: hex(b"single") });
            ops.push(VOp::ReadOnlyWrite { path: hexp(p), access: Access::Single, key: hex(b"zz"), remove: false });
        }
        ops.push(VOp::Session {
            path: hexp(p),
            access: Access::Multi,
            mutable: true,
            steps: vec![
                SStep::Rewrite { key: hex(b"abc") },
                SStep::Get { key: hex(b"abc") },
                SStep::Set { key: hex(b"n"), value: hex(b"new") },
                SStep::Remove { key: hex(b"absent") },
                SStep::Range { start: None, end: None, desc: false },
                SStep::Remove { key: hex(b"abc") },
                SStep::Rewrite { key: hex(b"n") },
                SStep::Range { start: Some(hex(b"a")), end: None, desc: true },
            ],
        });
        ops.push(VOp::Inspect { path: vec![], access: Access::Multi, other: hexp(p) });
        out.push(Case { ops, check_seed: 7 });
    }
    out
}
