//! E1 — chain engine: scripted contracts + out-of-band trace + reference model
//! (serves C01–C05, C08, C10–C13 and, through its transcripts, C19).

use crate::core::*;
use crate::model::chain::*;
use crate::puppet::*;
use crate::rawstate;
use cosmwasm_std::testing::{MockApi, MockStorage};
use cosmwasm_std::{
    Addr, Api, Binary, BlockInfo, Checksum, Coin, ContractInfoResponse, Empty, Event, Order, Querier, QueryRequest, Storage, Timestamp, WasmQuery,
};
use cw_multi_test::error::AnyResult;
use cw_multi_test::{
    App, AppBuilder, AppResponse, BankKeeper, BankSudo, CosmosRouter, DistributionKeeper, Executor, GovFailingModule, IbcFailingModule, Module, StakeKeeper,
    StargateFailing, SudoMsg, WasmKeeper, WasmSudo,
};
use serde::{Deserialize, Serialize};
use std::collections::BTreeMap;

// --- the chain's custom module ----------------------------------------------------------------

pub struct CustomMod;

impl Module for CustomMod {
    type ExecT = PMsg;
    type QueryT = PQuery;
    type SudoT = Empty;

    fn execute<ExecC, QueryC>(
        &self,
        _api: &dyn Api,
        storage: &mut dyn Storage,
        _router: &dyn CosmosRouter<ExecC = ExecC, QueryC = QueryC>,
        _block: &BlockInfo,
        sender: Addr,
        msg: PMsg,
    ) -> AnyResult<AppResponse> {
        // like real modules (staking: stake recorded, then the bank transfer fails), it writes before it decides
        storage.set(&custom_record_key(msg.tag), format!("from:{}", sender).as_bytes());
        if msg.fail {
            anyhow::bail!("custom module rejects message {}", msg.tag);
        }
        let r = custom_exec_answer(sender.as_str(), msg.tag);
        Ok(AppResponse { events: r.events, data: r.data.map(Binary::from) })
    }

    fn query(&self, _api: &dyn Api, _storage: &dyn Storage, _querier: &dyn Querier, _block: &BlockInfo, request: PQuery) -> AnyResult<Binary> {
        Ok(Binary::from(custom_query_answer(request.n).into_bytes()))
    }

    fn sudo<ExecC, QueryC>(
        &self,
        _api: &dyn Api,
        _storage: &mut dyn Storage,
        _router: &dyn CosmosRouter<ExecC = ExecC, QueryC = QueryC>,
        _block: &BlockInfo,
        _msg: Empty,
    ) -> AnyResult<AppResponse> {
        anyhow::bail!("no custom sudo")
    }
}

/// The chain's address codec, selectable per history: cosmwasm_std's MockApi or one of the crate's own bech32 codecs
/// (which accept and normalise alternative spellings of an address).
pub enum FlexApi {
    Std(MockApi),
    Bech32(cw_multi_test::MockApiBech32),
    Bech32m(cw_multi_test::MockApiBech32m),
    /// plain case-sensitive strings (see ApiKind::Plain); the MockApi inside only serves the signature functions
    Plain(MockApi),
}

impl FlexApi {
    pub fn of(kind: ApiKind) -> FlexApi {
        match kind {
            ApiKind::Std => FlexApi::Std(MockApi::default()),
            ApiKind::Bech32 => FlexApi::Bech32(cw_multi_test::MockApiBech32::new(crate::model::chain::PREFIX)),
            ApiKind::Bech32m => FlexApi::Bech32m(cw_multi_test::MockApiBech32m::new(crate::model::chain::PREFIX)),
            ApiKind::Plain => FlexApi::Plain(MockApi::default()),
        }
    }
    pub fn addr_make(&self, name: &str) -> Addr {
        match self {
            FlexApi::Std(a) => a.addr_make(name),
            FlexApi::Bech32(a) => a.addr_make(name),
            FlexApi::Bech32m(a) => a.addr_make(name),
            FlexApi::Plain(_) => Addr::unchecked(ApiKind::Plain.addr_make(name)),
        }
    }
    fn inner(&self) -> &dyn cosmwasm_std::Api {
        match self {
            FlexApi::Std(a) => a,
            FlexApi::Bech32(a) => a,
            FlexApi::Bech32m(a) => a,
            FlexApi::Plain(a) => a,
        }
    }
}

impl cosmwasm_std::Api for FlexApi {
    fn addr_validate(&self, human: &str) -> cosmwasm_std::StdResult<Addr> {
        if let FlexApi::Plain(_) = self {
            return if human.is_empty() { Err(cosmwasm_std::StdError::generic_err("empty address")) } else { Ok(Addr::unchecked(human)) };
        }
        self.inner().addr_validate(human)
    }
    fn addr_canonicalize(&self, human: &str) -> cosmwasm_std::StdResult<cosmwasm_std::CanonicalAddr> {
        if let FlexApi::Plain(_) = self {
            return if human.is_empty() { Err(cosmwasm_std::StdError::generic_err("empty address")) } else { Ok(human.as_bytes().to_vec().into()) };
        }
        self.inner().addr_canonicalize(human)
    }
    fn addr_humanize(&self, canonical: &cosmwasm_std::CanonicalAddr) -> cosmwasm_std::StdResult<Addr> {
        if let FlexApi::Plain(_) = self {
            return match String::from_utf8(canonical.as_slice().to_vec()) {
                Ok(s) if !s.is_empty() => Ok(Addr::unchecked(s)),
                _ => Err(cosmwasm_std::StdError::generic_err("not a plain address")),
            };
        }
        self.inner().addr_humanize(canonical)
    }
    fn secp256k1_verify(&self, h: &[u8], s: &[u8], k: &[u8]) -> Result<bool, cosmwasm_std::VerificationError> {
        self.inner().secp256k1_verify(h, s, k)
    }
    fn secp256k1_recover_pubkey(&self, h: &[u8], s: &[u8], r: u8) -> Result<Vec<u8>, cosmwasm_std::RecoverPubkeyError> {
        self.inner().secp256k1_recover_pubkey(h, s, r)
    }
    fn ed25519_verify(&self, m: &[u8], s: &[u8], k: &[u8]) -> Result<bool, cosmwasm_std::VerificationError> {
        self.inner().ed25519_verify(m, s, k)
    }
    fn ed25519_batch_verify(&self, m: &[&[u8]], s: &[&[u8]], k: &[&[u8]]) -> Result<bool, cosmwasm_std::VerificationError> {
        self.inner().ed25519_batch_verify(m, s, k)
    }
    fn debug(&self, message: &str) {
        self.inner().debug(message)
    }
}

pub type PApp = App<BankKeeper, FlexApi, MockStorage, CustomMod, WasmKeeper<PMsg, PQuery>, StakeKeeper, DistributionKeeper, IbcFailingModule, GovFailingModule, StargateFailing>;

pub fn new_app() -> PApp {
    new_app_with(ApiKind::Std)
}

pub fn new_app_with(kind: ApiKind) -> PApp {
    new_app_setup(kind, false)
}

pub const PRESTORED_TAG: u32 = 77;

/// An address generator that repeats itself: every code has one address, whatever the instance number. A second
/// plain instantiation of a code must then be rejected as a duplicate and leave the first contract alone.
pub struct OneAddressPerCode;
impl cw_multi_test::AddressGenerator for OneAddressPerCode {
    fn contract_address(&self, api: &dyn cosmwasm_std::Api, storage: &mut dyn cosmwasm_std::Storage, code_id: u64, _instance_id: u64) -> AnyResult<Addr> {
        cw_multi_test::SimpleAddressGenerator.contract_address(api, storage, code_id, 0)
    }
}

/// The address generator of chains with plain string addresses: names that differ in letter case only, are prefixes
/// of one another or contain the separators the storage layout uses. Every one of them is a contract of its own.
pub struct PlainNames;
impl cw_multi_test::AddressGenerator for PlainNames {
    fn contract_address(&self, _api: &dyn cosmwasm_std::Api, _storage: &mut dyn cosmwasm_std::Storage, _code_id: u64, instance_id: u64) -> AnyResult<Addr> {
        Ok(Addr::unchecked(crate::model::chain::plain_contract_name(instance_id)))
    }
}

/// A stateful address generator: it keeps a counter in chain storage and hands out the next name of a sequence on
/// every call (so it must be asked exactly once per instantiation, and a rolled-back instantiation gives its name back).
pub struct SequenceNames;
impl cw_multi_test::AddressGenerator for SequenceNames {
    fn contract_address(&self, _api: &dyn cosmwasm_std::Api, storage: &mut dyn cosmwasm_std::Storage, _code_id: u64, _instance_id: u64) -> AnyResult<Addr> {
        let key = crate::model::chain::custom_record_key(crate::model::chain::SEQUENCE_TAG);
        let n: u64 = storage.get(&key).and_then(|v| String::from_utf8_lossy(&v).trim_start_matches("from:seq").parse().ok()).unwrap_or(0);
        storage.set(&key, format!("from:seq{}", n + 1).as_bytes());
        Ok(Addr::unchecked(crate::model::chain::sequence_contract_name(n)))
    }
}

/// A checksum generator that computes what the default one computes (it is not exported).
pub struct SameAsDefaultChecksums;
impl cw_multi_test::ChecksumGenerator for SameAsDefaultChecksums {
    fn checksum(&self, _creator: &Addr, code_id: u64) -> Checksum {
        Checksum::generate(format!("contract code {}", code_id).as_bytes())
    }
}

/// `prestored`: a code is stored on the wasm keeper before its generators are configured and before the keeper is
/// handed to the builder (code id 1, creator = the default creator); it must be there afterwards like any other.
pub fn new_app_setup(kind: ApiKind, prestored: bool) -> PApp {
    new_app_setup2(kind, prestored, false)
}

pub fn new_app_setup2(kind: ApiKind, prestored: bool, one_address_per_code: bool) -> PApp {
    let b: cw_multi_test::BasicAppBuilder<PMsg, PQuery> = AppBuilder::new_custom();
    if kind == ApiKind::Plain && one_address_per_code {
        let keeper: WasmKeeper<PMsg, PQuery> = WasmKeeper::new().with_address_generator(SequenceNames);
        return b.with_custom(CustomMod).with_api(FlexApi::of(kind)).with_wasm(keeper).build(|_, _, _| {});
    }
    if kind == ApiKind::Plain {
        let keeper: WasmKeeper<PMsg, PQuery> = WasmKeeper::new().with_address_generator(PlainNames);
        return b.with_custom(CustomMod).with_api(FlexApi::of(kind)).with_wasm(keeper).build(|_, _, _| {});
    }
    if one_address_per_code {
        let keeper: WasmKeeper<PMsg, PQuery> = WasmKeeper::new().with_address_generator(OneAddressPerCode);
        return b.with_custom(CustomMod).with_api(FlexApi::of(kind)).with_wasm(keeper).build(|_, _, _| {});
    }
    if prestored {
        use cw_multi_test::Wasm;
        let mut keeper: WasmKeeper<PMsg, PQuery> = WasmKeeper::new();
        keeper.store_code(MockApi::default().addr_make("creator"), Box::new(Puppet { code_tag: PRESTORED_TAG, checksum: None }));
        let keeper = keeper.with_address_generator(cw_multi_test::SimpleAddressGenerator).with_checksum_generator(SameAsDefaultChecksums);
        b.with_custom(CustomMod).with_api(FlexApi::of(kind)).with_wasm(keeper).build(|_, _, _| {})
    } else {
        b.with_custom(CustomMod).with_api(FlexApi::of(kind)).build(|_, _, _| {})
    }
}

/// An instance of the same type but with another address prefix and another starting block.
pub fn new_foreign_app(prefix: &'static str) -> PApp {
    let b: cw_multi_test::BasicAppBuilder<PMsg, PQuery> = AppBuilder::new_custom();
    b.with_custom(CustomMod)
        .with_api(FlexApi::Std(MockApi::default().with_prefix(prefix)))
        .with_block(BlockInfo { height: 987_654, time: Timestamp::from_seconds(1_111_111_111), chain_id: format!("{}-foreign-1", prefix) })
        .build(|_, _, _| {})
}

// --- programs ------------------------------------------------------------------------------------

#[derive(Clone, Debug, Serialize, Deserialize, PartialEq)]
pub enum CodeKind {
    Puppet { code_tag: u32, checksum: Option<String> },
    Lifted,
    /// assembled by ContractWrapper::new with only the listed optional entry points
    Partial { reply: bool, sudo: bool, migrate: bool },
}

#[derive(Clone, Debug, Serialize, Deserialize, PartialEq)]
pub enum ExecVia {
    Execute,
    /// the Executor helper matching the message kind (instantiate_contract, execute_contract, ...)
    Helper,
}

#[derive(Clone, Debug, Serialize, Deserialize, PartialEq)]
pub enum Top {
    StoreCode { kind: CodeKind, creator: Option<String>, id: Option<u64> },
    DuplicateCode { id: u64 },
    Mint { to: String, coins: Vec<Coin> },
    Exec { sender: String, msg: Msg, via: ExecVia },
    Multi { sender: String, msgs: Vec<Msg> },
    Sudo { addr: String, script: Script, helper: bool },
    SetBlock { height: u64, time_nanos: u64, chain_id: String, next: bool },
    QueryBattery,
    /// `App::update_block` with a closure that changes some of the fields only (possibly not the height)
    BumpBlock { dh: u64, dt_nanos: u64, chain_id: Option<String> },
    /// a write (or removal) through `App::contract_storage_mut`: it lands in that contract's key space and nowhere else
    Poke { addr: String, key: Binary, value: Option<Binary> },
}

#[derive(Clone, Debug, Serialize, Deserialize)]
pub struct Case {
    pub ops: Vec<Top>,
    /// the address codec the chain is built with
    #[serde(default)]
    pub api: ApiKind,
    /// a code was stored on the wasm keeper before it was configured and handed to the builder
    #[serde(default)]
    pub prestored: bool,
    /// the keeper's address generator repeats addresses (one per code)
    #[serde(default)]
    pub one_address_per_code: bool,
}

/// A discrepancy: the properties it refutes, a stable signature, and a description.
#[derive(Clone, Debug)]
pub struct Disc {
    pub props: Vec<&'static str>,
    pub sig: String,
    pub detail: String,
}

pub struct World {
    pub app: PApp,
    pub model: ChainM,
    pub users: Vec<String>,
    /// when set, everything observable of every step is appended (C19 transcripts)
    pub transcript: Option<Vec<String>>,
    /// instantiations that the model rolled back so far in this history (failed or caught sub-trees, failed transactions)
    pub rolled_back_insts: u64,
}

fn block_tuple(b: &BlockInfo) -> (u64, u64, String) {
    (b.height, b.time.nanos(), b.chain_id.clone())
}

impl World {
    /// A differently configured instance (other bech32 prefix, other block); its model comparison is meaningless
    /// (the model assumes the default codec) — it exists to exercise the real code before / next to other instances.
    pub fn new_foreign(prefix: &'static str) -> World {
        let app = new_foreign_app(prefix);
        let model = ChainM::new(block_tuple(&app.block_info()));
        let users = (0..3).map(|i| app.api().addr_make(&format!("user{}", i)).to_string()).collect();
        let _ = take_trace();
        World { app, model, users, transcript: None, rolled_back_insts: 0 }
    }

    pub fn new() -> World {
        World::with_api(ApiKind::Std)
    }

    pub fn with_api(kind: ApiKind) -> World {
        World::with_setup(kind, false)
    }

    pub fn for_case(case: &Case) -> World {
        World::with_setup2(case.api, case.prestored, case.one_address_per_code)
    }

    pub fn with_setup(kind: ApiKind, prestored: bool) -> World {
        World::with_setup2(kind, prestored, false)
    }

    pub fn with_setup2(kind: ApiKind, prestored: bool, one_address_per_code: bool) -> World {
        // (on plain-address chains the flag selects the stateful sequence generator instead)
        let prestored = prestored && !one_address_per_code && kind != ApiKind::Plain;
        let app = new_app_setup2(kind, prestored, one_address_per_code);
        let mut model = ChainM::new(block_tuple(&app.block_info()));
        model.api = kind;
        model.one_address_per_code = one_address_per_code;
        if prestored {
            model.codes.insert(1, CodeM { creator: MockApi::default().addr_make("creator").to_string(), checksum: default_checksum(1), code_tag: PRESTORED_TAG, lifted: false, entry_points: (true, true, true) });
        }
        let users = (0..3).map(|i| app.api().addr_make(&format!("user{}", i)).to_string()).collect();
        let _ = take_trace();
        World { app, model, users, transcript: None, rolled_back_insts: 0 }
    }
}

pub fn make_code(kind: &CodeKind) -> Box<dyn cw_multi_test::Contract<PMsg, PQuery>> {
    match kind {
        CodeKind::Puppet { code_tag, checksum } => Box::new(Puppet { code_tag: *code_tag, checksum: checksum.as_ref().map(|h| Checksum::from_hex(h).unwrap()) }),
        CodeKind::Lifted => lifted_puppet(),
        CodeKind::Partial { reply, sudo, migrate } => partial_puppet(*reply, *sudo, *migrate),
    }
}

// --- decoding the raw wasm namespace ----------------------------------------------------------------

#[derive(Debug, Default, PartialEq)]
pub struct RawWasm {
    pub registry: BTreeMap<String, (u64, String, Option<String>, String, u64)>,
    pub data: BTreeMap<String, BTreeMap<Vec<u8>, Vec<u8>>>,
    pub foreign: Vec<Vec<u8>>,
}

/// Balance and smart queries through App against a raw dump of the committed state; the first difference.
pub fn app_queries_vs_committed(app: &PApp, committed: &rawstate::Raw, rep: &mut Report) -> Option<String> {
    let ledger = rawstate::bank_ledger(committed).ok()?;
    let wasm = decode_wasm(committed).ok()?;
    let mut accounts: Vec<String> = ledger.keys().cloned().chain(wasm.registry.keys().cloned()).collect();
    accounts.sort();
    accounts.dedup();
    for u in &accounts {
        rep.bump("e1/failed_tx/app_balance_queries");
        let want: Vec<(String, u128)> = ledger.get(u).map(|m| m.iter().filter(|(_, v)| **v > 0).map(|(k, v)| (k.clone(), *v)).collect()).unwrap_or_default();
        #[allow(deprecated)]
        let got: Vec<(String, u128)> = match catch(|| app.wrap().query_all_balances(u.clone())) {
            Ok(Ok(cs)) => cs.into_iter().map(|c| (c.denom, c.amount.u128())).collect(),
            other => return Some(format!("all-balances query for {}: {:?}", u, other.map(|r| r.map(|_| ())))),
        };
        if got != want {
            return Some(format!("all-balances query for {} answers {:?}, committed {:?}", u, got, want));
        }
    }
    for addr in wasm.registry.keys() {
        rep.bump("e1/failed_tx/app_smart_queries");
        let got: Result<Result<(u32, Vec<(Binary, Binary)>), _>, _> = catch(|| app.wrap().query_wasm_smart(addr.clone(), &PuppetQuery::Dump {}));
        if let Ok(Ok((_, dump))) = got {
            let dump: Vec<(Vec<u8>, Vec<u8>)> = dump.into_iter().map(|(k, v)| (k.to_vec(), v.to_vec())).collect();
            let want: Vec<(Vec<u8>, Vec<u8>)> = wasm.data.get(addr).map(|m| m.iter().map(|(k, v)| (k.clone(), v.clone())).collect()).unwrap_or_default();
            if dump != want {
                return Some(format!("smart query of {} shows {:?} beyond the committed {} entries", addr, dump.iter().filter(|e| !want.contains(e)).map(|(k, v)| format!("{}={}", rawstate::show(k), rawstate::show(v))).collect::<Vec<_>>(), want.len()));
            }
        }
    }
    None
}

pub fn decode_wasm(raw: &rawstate::Raw) -> Result<RawWasm, String> {
    let mut out = RawWasm::default();
    let p_wasm = rawstate::prefix(&[b"wasm"]);
    let p_reg = [p_wasm.clone(), rawstate::lp(b"contracts")].concat();
    let p_bank = rawstate::prefix(&[b"bank"]);
    for (k, v) in raw {
        if k.starts_with(&p_reg) {
            let addr = String::from_utf8_lossy(&k[p_reg.len()..]).to_string();
            let j: serde_json::Value = serde_json::from_slice(v).map_err(|e| format!("registry value: {}", e))?;
            out.registry.insert(
                addr,
                (
                    j["code_id"].as_u64().ok_or("code_id")?,
                    j["creator"].as_str().ok_or("creator")?.to_string(),
                    j["admin"].as_str().map(|s| s.to_string()),
                    j["label"].as_str().ok_or("label")?.to_string(),
                    j["created"].as_u64().ok_or("created")?,
                ),
            );
        } else if k.starts_with(&p_wasm) {
            let rest = &k[p_wasm.len()..];
            let ok = rest.len() >= 2 && {
                let n = ((rest[0] as usize) << 8) | rest[1] as usize;
                rest.len() >= 2 + n && rest[2..2 + n].starts_with(b"contract_data/") && {
                    let addr = String::from_utf8_lossy(&rest[2 + 14..2 + n]).to_string();
                    out.data.entry(addr).or_default().insert(rest[2 + n..].to_vec(), v.clone());
                    true
                }
            };
            if !ok {
                out.foreign.push(k.clone());
            }
        } else if !k.starts_with(&p_bank) {
            out.foreign.push(k.clone());
        }
    }
    Ok(out)
}

// --- executing one top-level op on both sides and comparing ------------------------------------------

pub struct StepInfo {
    pub out: Out,
    pub real_ok: bool,
    pub model_ok: bool,
    pub kind: &'static str,
    pub real_trace_len: usize,
}

fn events_str(ev: &[Event]) -> String {
    ev.iter()
        .map(|e| format!("{}{{{}}}", e.ty, e.attributes.iter().map(|a| format!("{}={}", a.key, a.value)).collect::<Vec<_>>().join(",")))
        .collect::<Vec<_>>()
        .join(" ")
}

fn first_trace_diff(exp: &[TraceEv], got: &[TraceEv]) -> Option<Disc> {
    let n = exp.len().min(got.len());
    for i in 0..n {
        let (e, g) = (&exp[i], &got[i]);
        if e == g {
            continue;
        }
        let pos = format!("trace entry #{} ({:?} of node {} at {})", i, e.entry, e.tag, e.contract);
        if e.entry != g.entry || e.tag != g.tag || e.contract != g.contract {
            if e.contract != g.contract && e.entry == g.entry && e.tag == g.tag {
                return Some(Disc { props: vec!["C05", "C11", "C03"], sig: "call-ran-at-another-address".into(), detail: format!("{}: ran at {}", pos, g.contract) });
            }
            let mut props = structural_props(&e.entry);
            for p in structural_props(&g.entry) {
                if !props.contains(&p) {
                    props.push(p);
                }
            }
            return Some(Disc {
                props,
                sig: format!("invocation-sequence-differs-expected-{:?}-observed-{:?}", e.entry, g.entry).to_lowercase(),
                detail: format!("{}: expected {:?} node {} at {}, observed {:?} node {} at {}", pos, e.entry, e.tag, e.contract, g.entry, g.tag, g.contract),
            });
        }
        if e.code_tag != g.code_tag {
            return Some(Disc { props: vec!["C12", "C11"], sig: "call-served-by-another-code".into(), detail: format!("{}: expected code tag {}, observed {}", pos, e.code_tag, g.code_tag) });
        }
        if e.reply != g.reply {
            let (props, sig): (Vec<&'static str>, &str) = match (&e.reply, &g.reply) {
                (Some((ei, ep, es)), Some((gi, gp, gs))) => {
                    if ei != gi || ep != gp {
                        (vec!["C03"], "reply-id-or-payload-altered")
                    } else if std::mem::discriminant(es) != std::mem::discriminant(gs) {
                        (vec!["C03", "C02"], "reply-result-variant-differs")
                    } else {
                        (vec!["C03", "C04"], "reply-carries-other-events-or-data")
                    }
                }
                _ => (vec!["C03"], "reply-presence-differs"),
            };
            let show = |r: &Option<(u64, Vec<u8>, ReplySeen)>| match r {
                Some((id, p, ReplySeen::Ok { events, data })) => format!("id={} payload={}B ok events=[{}] data={:?}", id, p.len(), events_str(events), data.as_ref().map(|d| hex(d))),
                Some((id, p, ReplySeen::Err)) => format!("id={} payload={}B err", id, p.len()),
                None => "none".into(),
            };
            return Some(Disc { props, sig: sig.into(), detail: format!("{}: expected reply [{}], observed [{}]", pos, show(&e.reply), show(&g.reply)) });
        }
        if e.sender != g.sender {
            return Some(Disc { props: vec!["C05"], sig: "contract-told-another-sender".into(), detail: format!("{}: expected sender {:?}, observed {:?}", pos, e.sender, g.sender) });
        }
        if e.funds != g.funds {
            return Some(Disc { props: vec!["C05"], sig: "contract-told-other-funds".into(), detail: format!("{}: expected funds {:?}, observed {:?}", pos, e.funds, g.funds) });
        }
        if e.block != g.block {
            return Some(Disc { props: vec!["C05"], sig: "contract-saw-another-block".into(), detail: format!("{}: expected block {:?}, observed {:?}", pos, e.block, g.block) });
        }
        if e.balance != g.balance {
            return Some(Disc { props: vec!["C05", "C10", "C02", "C09"], sig: "own-balance-at-entry-differs".into(), detail: format!("{}: expected balance {:?}, observed {:?}", pos, e.balance, g.balance) });
        }
        if e.storage != g.storage {
            let show = |s: &Vec<(Vec<u8>, Vec<u8>)>| s.iter().map(|(k, v)| format!("{}={}", rawstate::show(k), rawstate::show(v))).collect::<Vec<_>>();
            return Some(Disc { props: vec!["C02", "C08", "C12"], sig: "own-storage-at-entry-differs".into(), detail: format!("{}: expected storage {:?}, observed {:?}", pos, show(&e.storage), show(&g.storage)) });
        }
        if e.storage_desc != g.storage_desc {
            let show = |s: &Vec<(Vec<u8>, Vec<u8>)>| s.iter().map(|(k, v)| format!("{}={}", rawstate::show(k), rawstate::show(v))).collect::<Vec<_>>();
            let (what, ev, gv) = if e.storage_desc.0 != g.storage_desc.0 { ("at entry", &e.storage_desc.0, &g.storage_desc.0) } else { ("after its own writes", &e.storage_desc.1, &g.storage_desc.1) };
            return Some(Disc { props: vec!["C08", "C02", "C10"], sig: "own-storage-iterated-descending-differs".into(), detail: format!("{} {}: expected {:?}, observed {:?}", pos, what, show(ev), show(gv)) });
        }
        if e.probes != g.probes {
            for (j, (pe, pg)) in e.probes.iter().zip(g.probes.iter()).enumerate() {
                if pg.0 != pg.1 {
                    return Some(Disc { props: vec!["C10"], sig: "same-query-twice-differs".into(), detail: format!("{} probe #{}: {} then {}", pos, j, pg.0, pg.1) });
                }
                if pe != pg {
                    return Some(Disc { props: vec!["C10", "C02", "C08"], sig: "query-inside-contract-differs-from-transaction-state".into(), detail: format!("{} probe #{}: expected {}, observed {}", pos, j, pe.0, pg.0) });
                }
            }
        }
        return Some(Disc { props: vec!["C02"], sig: "trace-entry-differs".into(), detail: pos });
    }
    if exp.len() != got.len() {
        let (longer, what) = if exp.len() > got.len() { (&exp[n], "missing") } else { (&got[n], "unexpected") };
        return Some(Disc {
            props: structural_props(&longer.entry),
            sig: format!("{}-{:?}-invocation", what, longer.entry).to_lowercase(),
            detail: format!("{} invocation #{}: {:?} of node {} at {} (expected {} entries, observed {})", what, n, longer.entry, longer.tag, longer.contract, exp.len(), got.len()),
        });
    }
    None
}

/// Which properties a missing / surplus / misplaced invocation of this kind refutes.
fn structural_props(e: &Entry) -> Vec<&'static str> {
    match e {
        Entry::Reply => vec!["C03", "C02"],
        Entry::Instantiate => vec!["C11", "C02"],
        Entry::Migrate => vec!["C12", "C11"],
        Entry::Execute => vec!["C02", "C03", "C05"],
        Entry::Sudo => vec!["C01", "C02"],
    }
}

fn why_props(w: &Why) -> Vec<&'static str> {
    match w {
        Why::BadAttribute => vec!["C13"],
        Why::Overdraft | Why::NoPositiveAmount | Why::BalanceOverflow => vec!["C05", "C09"],
        Why::DuplicateAddress | Why::EmptyLabel | Why::NoSuchCode | Why::BadSalt => vec!["C11"],
        Why::NotAdmin => vec!["C12"],
        Why::NoEntryPoint => vec!["C12", "C03"],
        Why::UnknownContract | Why::InvalidAddress => vec!["C11"],
        Why::ContractError | Why::CustomFailed => vec![],
    }
}

impl World {
    /// Compares the committed chain state with the model; returns discrepancies.
    pub fn compare_state(&self, rep: &mut Report, ctx: &str) -> Vec<Disc> {
        let mut d = vec![];
        let raw = rawstate::dump(self.app.storage());
        // bank
        match rawstate::bank_ledger(&raw) {
            Ok(ledger) => {
                let mut accounts: Vec<String> = ledger.keys().cloned().chain(self.model.st.bank.accounts.keys().cloned()).collect();
                accounts.sort();
                accounts.dedup();
                for a in accounts {
                    let real: Vec<(String, u128)> = ledger.get(&a).map(|m| m.iter().filter(|(_, v)| **v > 0).map(|(k, v)| (k.clone(), *v)).collect()).unwrap_or_default();
                    rep.bump("e1/state/balances_compared");
                    if real != self.model.st.bank.all(&a) {
                        d.push(Disc { props: vec!["C01", "C02", "C05", "C09"], sig: "final-balance-differs".into(), detail: format!("{}: account {} has {:?}, model {:?}", ctx, a, real, self.model.st.bank.all(&a)) });
                        break;
                    }
                }
            }
            Err(e) => d.push(Disc { props: vec!["C09"], sig: "bank-raw-ledger-malformed".into(), detail: e }),
        }
        // the custom module's own records
        {
            let p = rawstate::prefix(&[b"vcustom"]);
            let real: BTreeMap<Vec<u8>, Vec<u8>> = raw.iter().filter(|(k, _)| k.starts_with(&p)).cloned().collect();
            rep.bump("e1/state/module_records_compared");
            if real != self.model.st.custom {
                let show = |m: &BTreeMap<Vec<u8>, Vec<u8>>| m.keys().map(|k| rawstate::show(&k[p.len()..])).collect::<Vec<_>>();
                d.push(Disc { props: vec!["C02", "C01"], sig: "module-records-differ".into(), detail: format!("{}: the custom module's records are {:?}, expected {:?}", ctx, show(&real), show(&self.model.st.custom)) });
            }
        }
        // wasm
        match decode_wasm(&raw) {
            Ok(w) => {
                let want_reg: BTreeMap<String, (u64, String, Option<String>, String, u64)> =
                    self.model.st.contracts.iter().map(|(a, c)| (a.clone(), (c.code_id, c.creator.clone(), c.admin.clone(), c.label.clone(), c.created))).collect();
                rep.bump("e1/state/registry_compared");
                if w.registry != want_reg {
                    let diff: Vec<String> = want_reg
                        .iter()
                        .filter(|(a, v)| w.registry.get(*a) != Some(v))
                        .map(|(a, v)| format!("{}: model {:?} real {:?}", a, v, w.registry.get(a)))
                        .chain(w.registry.iter().filter(|(a, _)| !want_reg.contains_key(*a)).map(|(a, v)| format!("{}: unexpected {:?}", a, v)))
                        .collect();
                    d.push(Disc { props: vec!["C01", "C02", "C11", "C12"], sig: "contract-registry-differs".into(), detail: format!("{}: {:?}", ctx, diff) });
                }
                // contract data, byte for byte
                let mut addrs: Vec<String> = w.data.keys().cloned().chain(self.model.st.contracts.keys().cloned()).collect();
                addrs.sort();
                addrs.dedup();
                for a in addrs {
                    let real = w.data.get(&a).cloned().unwrap_or_default();
                    let want = self.model.st.contracts.get(&a).map(|c| c.storage.clone()).unwrap_or_default();
                    rep.bump("e1/state/contract_storages_compared");
                    if real != want {
                        let show = |m: &BTreeMap<Vec<u8>, Vec<u8>>| m.iter().map(|(k, v)| format!("{}={}", rawstate::show(k), rawstate::show(v))).collect::<Vec<_>>();
                        d.push(Disc { props: vec!["C01", "C02", "C08"], sig: "contract-storage-differs".into(), detail: format!("{}: contract {}: real {:?}, model {:?}", ctx, a, show(&real), show(&want)) });
                        break;
                    }
                }
            }
            Err(e) => d.push(Disc { props: vec!["C08"], sig: "wasm-raw-state-malformed".into(), detail: e }),
        }
        d
    }

    /// C08: the four accessors agree with each other and with the model.
    pub fn compare_accessors(&self, rep: &mut Report) -> Vec<Disc> {
        let mut d = vec![];
        for (addr, c) in &self.model.st.contracts {
            let a = Addr::unchecked(addr.clone());
            let want: Vec<(Vec<u8>, Vec<u8>)> = c.storage.iter().map(|(k, v)| (k.clone(), v.clone())).collect();
            let dump = self.app.dump_wasm_raw(&a);
            let acc: Vec<(Vec<u8>, Vec<u8>)> = self.app.contract_storage(&a).range(None, None, Order::Ascending).collect();
            rep.bump("e1/accessors/contracts_compared");
            if dump != want || acc != want {
                d.push(Disc { props: vec!["C08"], sig: "storage-accessors-disagree".into(), detail: format!("contract {}: dump_wasm_raw {} entries, contract_storage {} entries, model {}", addr, dump.len(), acc.len(), want.len()) });
                break;
            }
            for (k, v) in want.iter().take(6) {
                let got = self.app.wrap().query_wasm_raw(addr.clone(), k.clone());
                rep.bump("e1/accessors/raw_queries_compared");
                if got.as_ref().ok().and_then(|x| x.clone()) != Some(v.clone()) {
                    d.push(Disc { props: vec!["C08", "C10"], sig: "raw-query-disagrees-with-contract-storage".into(), detail: format!("contract {} key {}: {:?}", addr, rawstate::show(k), got) });
                    break;
                }
            }
            // the smart query is served by the contract's current code and shows its storage
            if let Some(code) = self.model.codes.get(&c.code_id) {
                let got: Result<(u32, Vec<(Binary, Binary)>), _> = self.app.wrap().query_wasm_smart(addr.clone(), &PuppetQuery::Dump {});
                rep.bump("e1/accessors/smart_queries_compared");
                match got {
                    Ok((tag, dump)) => {
                        let dump: Vec<(Vec<u8>, Vec<u8>)> = dump.into_iter().map(|(k, v)| (k.to_vec(), v.to_vec())).collect();
                        if tag != code.code_tag {
                            d.push(Disc { props: vec!["C10", "C12"], sig: "smart-query-served-by-another-code".into(), detail: format!("contract {}: query answered by code tag {}, recorded code {} has tag {}", addr, tag, c.code_id, code.code_tag) });
                        } else if dump != want {
                            d.push(Disc { props: vec!["C10", "C08"], sig: "smart-query-shows-other-storage".into(), detail: format!("contract {}: {} entries vs model {}", addr, dump.len(), want.len()) });
                        }
                    }
                    Err(e) => d.push(Disc { props: vec!["C10"], sig: "smart-query-failed".into(), detail: format!("contract {}: {}", addr, e) }),
                }
            }
            // bounded ranges in both orders, advanced past some records: through the contract's query entry point
            // (a read-only view) and through App's read-only accessor
            if !want.is_empty() {
                let i = rep.count("e1/accessors/contracts_compared") as usize;
                let pick = |j: usize| want[(i + j) % want.len()].0.clone();
                for (start, end, desc, skip) in [(Some(pick(0)), None, true, 0usize), (None, Some(pick(1)), true, 1), (Some(pick(2)), Some(pick(3)), i % 2 == 0, 0), (None, None, true, i % 3)] {
                    let mut exp: Vec<(Vec<u8>, Vec<u8>)> = want.iter().filter(|(k, _)| start.as_ref().map_or(true, |s| k >= s) && end.as_ref().map_or(true, |e| k < e)).cloned().collect();
                    if desc {
                        exp.reverse();
                    }
                    let exp: Vec<(Vec<u8>, Vec<u8>)> = exp.into_iter().skip(skip).collect();
                    let order = if desc { Order::Descending } else { Order::Ascending };
                    let acc: Vec<(Vec<u8>, Vec<u8>)> = self.app.contract_storage(&a).range(start.as_deref(), end.as_deref(), order).skip(skip).collect();
                    rep.bump("e1/accessors/bounded_ranges_compared");
                    let mut stop = false;
                    if acc != exp {
                        d.push(Disc { props: vec!["C08"], sig: "contract-storage-accessor-range-differs".into(), detail: format!("contract {}: range({:?},{:?},{:?}).skip({}) yields {} records, the storage has {}", addr, start.as_ref().map(|x| rawstate::show(x)), end.as_ref().map(|x| rawstate::show(x)), order, skip, acc.len(), exp.len()) });
                        stop = true;
                    }
                    if self.model.codes.contains_key(&c.code_id) {
                        let q = PuppetQuery::Range { start: start.clone().map(Binary::from), end: end.clone().map(Binary::from), desc, skip: skip as u32 };
                        let got: Result<(u32, Vec<(Binary, Binary)>), _> = self.app.wrap().query_wasm_smart(addr.clone(), &q);
                        if let Ok((_, v)) = got {
                            let v: Vec<(Vec<u8>, Vec<u8>)> = v.into_iter().map(|(k, v)| (k.to_vec(), v.to_vec())).collect();
                            if v != exp {
                                d.push(Disc { props: vec!["C10", "C08"], sig: "smart-query-range-differs-from-contract-storage".into(), detail: format!("contract {}: its query entry point reads range({:?},{:?},{:?}).skip({}) as {} records, the storage has {}", addr, start.as_ref().map(|x| rawstate::show(x)), end.as_ref().map(|x| rawstate::show(x)), order, skip, v.len(), exp.len()) });
                                stop = true;
                            }
                        }
                    }
                    if stop {
                        break;
                    }
                }
            }
            // a key the contract never wrote
            let absent = b"\x00never-written".to_vec();
            if !c.storage.contains_key(&absent) {
                if let Ok(Some(v)) = self.app.wrap().query_wasm_raw(addr.clone(), absent) {
                    d.push(Disc { props: vec!["C08"], sig: "raw-query-returns-foreign-data".into(), detail: format!("contract {}: never-written key yields {}", addr, rawstate::show(&v)) });
                }
            }
            match self.app.contract_data(&a) {
                Ok(cd) => {
                    rep.bump("e1/accessors/contract_data_compared");
                    if cd.code_id != c.code_id || cd.creator.as_str() != c.creator || cd.admin.as_ref().map(|x| x.to_string()) != c.admin || cd.label != c.label || cd.created != c.created {
                        d.push(Disc { props: vec!["C11", "C12"], sig: "contract-data-differs-from-what-was-supplied".into(), detail: format!("contract {}: {:?} vs model {:?}", addr, cd, (c.code_id, &c.creator, &c.admin, &c.label, c.created)) });
                    }
                }
                Err(e) => d.push(Disc { props: vec!["C11"], sig: "contract-data-missing".into(), detail: format!("contract {}: {}", addr, e) }),
            }
            let ci: Result<ContractInfoResponse, _> = self.app.wrap().query(&QueryRequest::Wasm(WasmQuery::ContractInfo { contract_addr: addr.clone() }));
            match ci {
                Ok(ci) => {
                    if ci.code_id != c.code_id || ci.creator.as_str() != c.creator || ci.admin.as_ref().map(|x| x.to_string()) != c.admin {
                        d.push(Disc { props: vec!["C11", "C12"], sig: "contract-info-query-differs".into(), detail: format!("contract {}: {:?}", addr, ci) });
                    }
                }
                Err(e) => d.push(Disc { props: vec!["C11"], sig: "contract-info-query-failed".into(), detail: format!("contract {}: {}", addr, e) }),
            }
        }
        // code info for every stored code
        for (id, c) in &self.model.codes {
            let r: Result<cosmwasm_std::CodeInfoResponse, _> = self.app.wrap().query(&QueryRequest::Wasm(WasmQuery::CodeInfo { code_id: *id }));
            rep.bump("e1/accessors/code_info_compared");
            match r {
                Ok(ci) => {
                    if ci.code_id != *id || ci.creator.as_str() != c.creator || ci.checksum.as_slice() != c.checksum.as_slice() {
                        d.push(Disc { props: vec!["C11"], sig: "code-info-differs".into(), detail: format!("code {}: {:?} vs model creator {} checksum {}", id, ci, c.creator, hex(&c.checksum)) });
                    }
                }
                Err(e) => d.push(Disc { props: vec!["C11"], sig: "stored-code-cannot-be-queried".into(), detail: format!("code {}: {}", id, e) }),
            }
        }
        d
    }

    /// I2: a battery of queries, each issued twice, leaves raw storage byte-identical.
    pub fn query_battery(&self, rep: &mut Report, answers: &mut Vec<String>) -> Vec<Disc> {
        let mut d = vec![];
        let before = rawstate::dump(self.app.storage());
        let mut reqs: Vec<QueryRequest<PQuery>> = vec![];
        for u in self.users.iter().chain(self.model.st.contracts.keys()) {
            #[allow(deprecated)]
            reqs.push(QueryRequest::Bank(cosmwasm_std::BankQuery::AllBalances { address: u.clone() }));
            reqs.push(QueryRequest::Bank(cosmwasm_std::BankQuery::Balance { address: u.clone(), denom: "ua".into() }));
        }
        reqs.push(QueryRequest::Bank(cosmwasm_std::BankQuery::Supply { denom: "ua".into() }));
        for a in self.model.st.contracts.keys() {
            reqs.push(QueryRequest::Wasm(WasmQuery::Smart { contract_addr: a.clone(), msg: cosmwasm_std::to_json_binary(&PuppetQuery::Dump {}).unwrap() }));
            reqs.push(QueryRequest::Wasm(WasmQuery::Raw { contract_addr: a.clone(), key: Binary::from(b"a".to_vec()) }));
            reqs.push(QueryRequest::Wasm(WasmQuery::ContractInfo { contract_addr: a.clone() }));
        }
        for id in self.model.codes.keys().chain([0u64, 9999].iter()) {
            reqs.push(QueryRequest::Wasm(WasmQuery::CodeInfo { code_id: *id }));
        }
        reqs.push(QueryRequest::Custom(PQuery { n: 21 }));
        reqs.push(QueryRequest::Staking(cosmwasm_std::StakingQuery::BondedDenom {}));
        reqs.push(QueryRequest::Staking(cosmwasm_std::StakingQuery::AllValidators {}));
        reqs.push(QueryRequest::Staking(cosmwasm_std::StakingQuery::AllDelegations { delegator: self.users[0].clone() }));
        for r in reqs {
            let bytes = cosmwasm_std::to_json_vec(&r).unwrap();
            let a = catch(|| format!("{:?}", self.app.raw_query(&bytes)));
            let b = catch(|| format!("{:?}", self.app.raw_query(&bytes)));
            rep.bump("e1/purity/queries_issued_twice");
            match (a, b) {
                (Ok(a), Ok(b)) => {
                    if a != b {
                        d.push(Disc { props: vec!["C10"], sig: "same-query-twice-differs".into(), detail: format!("{:?}: {} then {}", r, a, b) });
                    }
                    // error texts are not part of a transcript
                    answers.push(if a.contains("Err(") { "err".to_string() } else { a });
                }
                (a, b) => d.push(Disc { props: vec!["C10"], sig: "query-panics".into(), detail: format!("{:?}: {:?} / {:?}", r, a, b) }),
            }
        }
        let after = rawstate::dump(self.app.storage());
        rep.bump("e1/purity/storage_unchanged_checks");
        if after != before {
            d.push(Disc { props: vec!["C10"], sig: "query-changed-chain-state".into(), detail: format!("{:?}", rawstate::diff(&before, &after)) });
        }
        d
    }

    /// Runs one top-level op on the real App and on the model, compares everything observable.
    pub fn step(&mut self, op: &Top, rep: &mut Report) -> (Vec<Disc>, Option<StepInfo>) {
        let mut discs: Vec<Disc> = vec![];
        let before = rawstate::dump(self.app.storage());
        let _ = take_trace();
        let _ = take_reply_gas(); // whatever other instances of this thread left behind
        let _ = take_env_tx();
        let _ = take_extras();
        rep.evaluations += 1;
        match op {
            Top::StoreCode { kind, creator, id } => {
                let code = make_code(kind);
                let model_creator = creator.clone().unwrap_or_else(|| MockApi::default().addr_make("creator").to_string());
                let (code_tag, lifted, explicit_checksum, entry_points) = match kind {
                    CodeKind::Puppet { code_tag, checksum } => (*code_tag, false, checksum.as_ref().map(|h| unhex(h)), (true, true, true)),
                    CodeKind::Lifted => (LIFTED_TAG, true, None, (true, true, true)),
                    CodeKind::Partial { reply, sudo, migrate } => (partial_tag(*reply, *sudo, *migrate), false, None, (*reply, *sudo, *migrate)),
                };
                let expected: Result<u64, ()> = match id {
                    // no identifier left after u64::MAX: store_code panics by design, duplicate_code fails
                    None => self.model.next_code_id().ok_or(()),
                    Some(0) => Err(()),
                    Some(i) if self.model.codes.contains_key(i) => Err(()),
                    Some(i) => Ok(*i),
                };
                let got: Result<Result<u64, String>, String> = catch(|| match (id, creator) {
                    (Some(i), _) => self.app.store_code_with_id(Addr::unchecked(model_creator.clone()), *i, code).map_err(|e| e.to_string()),
                    (None, Some(c)) => Ok(self.app.store_code_with_creator(Addr::unchecked(c.clone()), code)),
                    (None, None) => Ok(self.app.store_code(code)),
                });
                if let Some(t) = self.transcript.as_mut() {
                    t.push(format!("store_code {:?}", got));
                }
                rep.bump(&format!("e1/registry/store_code/{}", match (id, &expected) { (None, _) => "auto", (Some(_), Ok(_)) => "chosen", (Some(_), Err(_)) => "rejected" }));
                match (got, expected) {
                    (Err(p), Err(())) if id.is_none() && p.contains("code id") => rep.bump("e1/registry/store_code/no-identifier-left"),
                    (Err(p), _) => discs.push(Disc { props: vec!["C11"], sig: "store-code-panics".into(), detail: p }),
                    (Ok(Ok(g)), Ok(e)) => {
                        if g != e {
                            discs.push(Disc { props: vec!["C11"], sig: "code-id-differs".into(), detail: format!("{:?}: got id {}, expected {}", op, g, e) });
                        }
                        let checksum = explicit_checksum.unwrap_or_else(|| default_checksum(g));
                        self.model.codes.insert(g, CodeM { creator: model_creator, checksum, code_tag, lifted, entry_points });
                    }
                    (Ok(Err(_)), Err(())) => {}
                    (Ok(Ok(g)), Err(())) => discs.push(Disc { props: vec!["C11"], sig: "invalid-code-id-accepted".into(), detail: format!("{:?}: accepted as {}", op, g) }),
                    (Ok(Err(e)), Ok(x)) => discs.push(Disc { props: vec!["C11"], sig: "valid-code-id-rejected".into(), detail: format!("{:?}: expected id {}, got error {}", op, x, e) }),
                }
                (discs, None)
            }
            Top::DuplicateCode { id } => {
                let expected = if *id != 0 && self.model.codes.contains_key(id) { self.model.next_code_id() } else { None };
                let got = catch(|| self.app.duplicate_code(*id).map_err(|e| e.to_string()));
                if let Some(t) = self.transcript.as_mut() {
                    t.push(format!("duplicate_code {:?}", got));
                }
                rep.bump(&format!("e1/registry/duplicate_code/{}", if expected.is_some() { "valid" } else { "invalid" }));
                match (got, expected) {
                    (Err(p), _) => discs.push(Disc { props: vec!["C11"], sig: "duplicate-code-panics".into(), detail: p }),
                    (Ok(Ok(g)), Some(e)) => {
                        if g != e {
                            discs.push(Disc { props: vec!["C11"], sig: "code-id-differs".into(), detail: format!("{:?}: got id {}, expected {}", op, g, e) });
                        }
                        let src = self.model.codes[id].clone();
                        self.model.codes.insert(g, src);
                    }
                    (Ok(Err(_)), None) => {}
                    (Ok(Ok(g)), None) => discs.push(Disc { props: vec!["C11"], sig: "duplicate-of-missing-code-accepted".into(), detail: format!("{:?}: {}", op, g) }),
                    (Ok(Err(e)), Some(_)) => discs.push(Disc { props: vec!["C11"], sig: "duplicate-code-rejected".into(), detail: format!("{:?}: {}", op, e) }),
                }
                (discs, None)
            }
            Top::BumpBlock { dh, dt_nanos, chain_id } => {
                let r = catch(|| {
                    self.app.update_block(|b| {
                        b.height += *dh;
                        b.time = b.time.plus_nanos(*dt_nanos);
                        if let Some(c) = chain_id {
                            b.chain_id = c.clone();
                        }
                    })
                });
                if let Err(p) = r {
                    discs.push(Disc { props: vec!["C14", "C05"], sig: "block-update-panics".into(), detail: p });
                }
                // what the closure produced is the current block, whichever fields it touched
                let (h, t, c) = self.model.block.clone();
                self.model.block = (h + dh, t + dt_nanos, chain_id.clone().unwrap_or(c));
                let shown = block_tuple(&self.app.block_info());
                rep.bump("e1/block_changes");
                rep.bump(if *dh == 0 { "e1/block_changes/same_height" } else { "e1/block_changes/partial" });
                if shown != self.model.block {
                    discs.push(Disc { props: vec!["C05"], sig: "block-info-differs-from-what-update-block-produced".into(), detail: format!("block_info() = {:?}, expected {:?}", shown, self.model.block) });
                    self.model.block = shown;
                }
                if let Some(t) = self.transcript.as_mut() {
                    t.push(format!("block {:?}", self.model.block));
                }
                (discs, None)
            }
            Top::SetBlock { height, time_nanos, chain_id, next } => {
                let r = if *next {
                    catch(|| self.app.update_block(cw_multi_test::next_block))
                } else {
                    let b = BlockInfo { height: *height, time: Timestamp::from_nanos(*time_nanos), chain_id: chain_id.clone() };
                    catch(|| self.app.set_block(b))
                };
                let panicked = r.is_err();
                if let Err(p) = r {
                    discs.push(Disc { props: vec!["C14", "C05"], sig: "block-update-panics".into(), detail: p });
                }
                // the block that was set is the current block — whether it is later, earlier or the same as before
                let (h, t, c) = self.model.block.clone();
                let expected = if *next { (h.wrapping_add(1), t.wrapping_add(5_000_000_000), c) } else { (*height, *time_nanos, chain_id.clone()) };
                rep.bump(if expected.0 < h { "e1/block_changes/to_a_lower_height" } else if expected.0 == h { "e1/block_changes/set_same_height" } else { "e1/block_changes/to_a_higher_height" });
                self.model.block = block_tuple(&self.app.block_info());
                if !panicked && self.model.block != expected {
                    discs.push(Disc { props: vec!["C05"], sig: "block-info-differs-from-the-block-that-was-set".into(), detail: format!("block_info() = {:?}, expected {:?}", self.model.block, expected) });
                }
                if let Some(t) = self.transcript.as_mut() {
                    t.push(format!("block {:?}", self.model.block));
                }
                rep.bump("e1/block_changes");
                (discs, None)
            }
            Top::Poke { addr, key, value } => {
                if self.model.st.contracts.contains_key(addr) {
                    let r = catch(|| {
                        let mut st = self.app.contract_storage_mut(&Addr::unchecked(addr.clone()));
                        match value {
                            Some(v) => st.set(key.as_slice(), v.as_slice()),
                            None => st.remove(key.as_slice()),
                        }
                    });
                    rep.bump("e1/accessors/writes_through_contract_storage_mut");
                    if let Err(p) = r {
                        discs.push(Disc { props: vec!["C08"], sig: "contract-storage-accessor-panics".into(), detail: p });
                        return (discs, None);
                    }
                    let c = self.model.st.contracts.get_mut(addr).unwrap();
                    match value {
                        Some(v) => {
                            c.storage.insert(key.to_vec(), v.to_vec());
                        }
                        None => {
                            c.storage.remove(key.as_slice());
                        }
                    }
                    if let Some(t) = self.transcript.as_mut() {
                        t.push(format!("poke {} {:?} {:?}", addr, key, value));
                    }
                    let mut ds = self.compare_state(rep, "poke");
                    for d in ds.iter_mut() {
                        d.props = vec!["C08"];
                    }
                    discs.extend(ds);
                    discs.extend(self.compare_accessors(rep));
                }
                (discs, None)
            }
            Top::QueryBattery => {
                let mut answers = vec![];
                // a dozen smart queries that fail (no contract at that address) come first: a failed query leaves
                // nothing behind, the queries after it are answered as if it had never been asked
                {
                    let ghost = self.model.api.addr_make("ghost");
                    if !self.model.st.contracts.contains_key(&ghost) {
                        for _ in 0..12 {
                            let r: Result<(u32, Vec<(Binary, Binary)>), _> = self.app.wrap().query_wasm_smart(ghost.clone(), &PuppetQuery::Dump {});
                            rep.bump(if r.is_err() { "e1/purity/failing_smart_queries_issued" } else { "e1/purity/smart_query_of_nothing_answered" });
                        }
                    }
                }
                discs.extend(self.query_battery(rep, &mut answers));
                if let Some(t) = self.transcript.as_mut() {
                    t.push(format!("queries {:?}", answers));
                }
                discs.extend(self.compare_accessors(rep));
                (discs, None)
            }
            Top::Mint { .. } | Top::Exec { .. } | Top::Multi { .. } | Top::Sudo { .. } => {
                let mut out = Out::default();
                let mut m = self.model.clone();
                // ---- model ----
                let (kind, expected): (&'static str, Result<Vec<Resp>, Why>) = match op {
                    Top::Mint { to, coins } => ("mint", m.mint_top(to, coins).map(|r| vec![r])),
                    Top::Exec { sender, msg, via } => {
                        let r = m.exec_top(sender, std::slice::from_ref(msg), &mut out);
                        (if *via == ExecVia::Helper { "exec-helper" } else { "exec" }, r)
                    }
                    Top::Multi { sender, msgs } => ("multi", m.exec_top(sender, msgs, &mut out)),
                    Top::Sudo { addr, script, helper } => (if *helper { "wasm_sudo" } else { "sudo" }, m.sudo_top(addr, script, &mut out).map(|r| vec![r])),
                    _ => unreachable!(),
                };
                // ---- real ----
                let got: Result<Result<Vec<AppResponse>, String>, String> = catch(|| match op {
                    Top::Mint { to, coins } => self.app.sudo(SudoMsg::Bank(BankSudo::Mint { to_address: to.clone(), amount: coins.clone() })).map(|r| vec![r]).map_err(|e| format!("{:#}", e)),
                    Top::Exec { sender, msg, via } => {
                        let s = Addr::unchecked(sender.clone());
                        match (via, msg) {
                            (ExecVia::Helper, Msg::Exec { addr, script, funds }) => self.app.execute_contract(s, Addr::unchecked(addr.clone()), &**script, funds).map(|r| vec![r]).map_err(|e| format!("{:#}", e)),
                            (ExecVia::Helper, Msg::BankSend { to, coins }) => self.app.send_tokens(s, Addr::unchecked(to.clone()), coins).map(|r| vec![r]).map_err(|e| format!("{:#}", e)),
                            (ExecVia::Helper, Msg::Migrate { addr, code_id, script }) => self.app.migrate_contract(s, Addr::unchecked(addr.clone()), &**script, *code_id).map(|r| vec![r]).map_err(|e| format!("{:#}", e)),
                            (ExecVia::Helper, Msg::Inst { code_id, script, funds, label, admin, salt: None }) => self
                                .app
                                .instantiate_contract(*code_id, s, &**script, funds, label.clone(), admin.clone())
                                .map(|a| vec![AppResponse { events: vec![], data: Some(Binary::from(a.as_bytes().to_vec())) }])
                                .map_err(|e| format!("{:#}", e)),
                            (ExecVia::Helper, Msg::Inst { code_id, script, funds, label, admin, salt: Some(salt) }) => self
                                .app
                                .instantiate2_contract(*code_id, s, &**script, funds, label.clone(), admin.clone(), salt.clone())
                                .map(|a| vec![AppResponse { events: vec![], data: Some(Binary::from(a.as_bytes().to_vec())) }])
                                .map_err(|e| format!("{:#}", e)),
                            _ => self.app.execute(s, to_cosmos::<PMsg>(msg)).map(|r| vec![r]).map_err(|e| format!("{:#}", e)),
                        }
                    }
                    Top::Multi { sender, msgs } => self.app.execute_multi(Addr::unchecked(sender.clone()), msgs.iter().map(to_cosmos::<PMsg>).collect()).map_err(|e| format!("{:#}", e)),
                    Top::Sudo { addr, script, helper } => {
                        if *helper {
                            self.app.wasm_sudo(Addr::unchecked(addr.clone()), script).map(|r| vec![r]).map_err(|e| format!("{:#}", e))
                        } else {
                            self.app
                                .sudo(SudoMsg::Wasm(WasmSudo { contract_addr: Addr::unchecked(addr.clone()), message: cosmwasm_std::to_json_binary(script).unwrap() }))
                                .map(|r| vec![r])
                                .map_err(|e| format!("{:#}", e))
                        }
                    }
                    _ => unreachable!(),
                });
                let real_trace = take_trace();
                if let Some(t) = self.transcript.as_mut() {
                    // errors-or-not (texts excluded), every response, and what every contract observed
                    let shown = match &got {
                        Ok(Ok(rs)) => format!("ok {:?}", rs.iter().map(|r| (events_str(&r.events), r.data.as_ref().map(|d| hex(d)))).collect::<Vec<_>>()),
                        Ok(Err(_)) => "err".to_string(),
                        Err(_) => "panic".to_string(),
                    };
                    t.push(format!("{} {} trace={:?} reply_gas={:?} env_tx={:?} extras={:?}", kind, shown, real_trace, take_reply_gas(), take_env_tx(), take_extras()));
                }
                let got = match got {
                    Ok(g) => g,
                    // a credit beyond the 128-bit range: the call has to fail; the simulator does so by panicking in its
                    // checked arithmetic, which is as good as an error as long as nothing was changed
                    Err(p) if matches!(&expected, Err(Why::BalanceOverflow)) && p.contains("verflow") => {
                        rep.bump("e1/tx/credit_beyond_128_bits_refused");
                        if rawstate::dump(self.app.storage()) != before {
                            discs.push(Disc { props: vec!["C01", "C05", "C09"], sig: "refused-transfer-left-state-changes".into(), detail: format!("{}: panic {} after changing state", short_op(op), p) });
                        }
                        return (discs, None);
                    }
                    Err(p) => {
                        // a call that neither returns nor errs: C01; plus the properties that promise the operation works
                        let f = op_features(op);
                        let mut props = vec!["C01", "C02"];
                        if f.inst {
                            props.push("C11");
                        }
                        if f.admin {
                            props.extend(["C12", "C11"]);
                        }
                        if f.funds || f.bank {
                            props.extend(["C05", "C09"]);
                        }
                        if f.attrs {
                            props.push("C13");
                        }
                        props.dedup();
                        discs.push(Disc { props, sig: format!("panic-in-{}", kind), detail: format!("{:?}: panic {}", short_op(op), p) });
                        return (discs, None);
                    }
                };
                let info = StepInfo { real_ok: got.is_ok(), model_ok: expected.is_ok(), kind, real_trace_len: real_trace.len(), out };
                rep.bump(&format!("e1/tx/{}/{}", kind, if info.model_ok { "ok" } else { "err" }));

                // ---- trace (what contracts observed); the first divergence decides ----
                let trace_diff = first_trace_diff(&info.out.trace, &real_trace);
                rep.add("e1/trace/entries_compared", real_trace.len() as u64);
                if real_trace.len() >= 20 {
                    rep.bump("e1/trace/transactions_with_20_or_more_invocations");
                }
                rep.add("e1/trace/reply_entries_compared", real_trace.iter().filter(|t| t.entry == Entry::Reply).count() as u64);
                rep.add("e1/trace/probes_compared", real_trace.iter().map(|t| t.probes.len()).sum::<usize>() as u64);
                let diverged = trace_diff.is_some();
                if let Some(mut dd) = trace_diff {
                    // an instantiation that runs at the address of a contract that existed before this transaction
                    // takes that contract over (code, admin) without being its admin: C12's subject as well
                    if dd.sig.contains("instantiate") && real_trace.iter().any(|t| t.entry == Entry::Instantiate && self.model.st.contracts.contains_key(&t.contract)) && !dd.props.contains(&"C12") {
                        dd.props.push("C12");
                    }
                    discs.push(dd);
                }

                // where a reply is missing, surplus or was handed something else, the response composed from "each
                // sub-message followed by its reply" is C04's subject as well, if it demonstrably differs
                if diverged {
                    if let (Ok(rs), Ok(es)) = (&got, &expected) {
                        let reply_related = discs.last().map_or(false, |d| d.sig.contains("reply"));
                        let helper = matches!(op, Top::Exec { via: ExecVia::Helper, .. });
                        if reply_related && !helper && rs.len() == es.len() {
                            if let Some((i, r, e)) = rs.iter().zip(es.iter()).enumerate().map(|(i, (r, e))| (i, r, e)).find(|(_, r, e)| r.events != e.events || r.data.as_ref().map(|d| d.to_vec()) != e.data) {
                                rep.bump("e1/responses/compared_after_reply_divergence");
                                discs.push(Disc { props: vec!["C04"], sig: "response-differs-where-replies-differ".into(), detail: format!("message #{}: expected [{}] data {:?}, observed [{}] data {:?}", i, events_str(&e.events), e.data.as_ref().map(|d| hex(d)), events_str(&r.events), r.data.as_ref().map(|d| hex(d))) });
                            }
                        }
                    }
                }
                // ---- outcome and responses (judged only while model and implementation are in step) ----
                if !diverged {
                    match (&got, &expected) {
                        (Ok(_), Err(w)) => {
                            let mut props = why_props(w);
                            if props.is_empty() {
                                props = vec!["C02", "C01"];
                            }
                            // an admin operation (or an instantiation) that took effect although it must fail without one
                            let f = op_features(op);
                            if f.admin && !props.contains(&"C12") {
                                props.push("C12");
                            }
                            if f.inst && !props.contains(&"C11") {
                                props.push("C11");
                            }
                            discs.push(Disc { props, sig: format!("succeeded-although-model-fails-with-{:?}", w).to_lowercase(), detail: short_op(op) });
                        }
                        (Err(e), Ok(_)) => {
                            let f = op_features(op);
                            let mut props = vec!["C02"];
                            if f.attrs {
                                props.push("C13");
                            }
                            if f.admin {
                                props.push("C12");
                            }
                            if f.inst {
                                props.push("C11");
                            }
                            if f.funds {
                                props.push("C05");
                            }
                            if f.bank {
                                props.push("C09");
                            }
                            discs.push(Disc { props, sig: "failed-although-model-succeeds".into(), detail: format!("{}: {}", short_op(op), first_line(e)) });
                        }
                        (Ok(rs), Ok(es)) => {
                            if rs.len() != es.len() {
                                discs.push(Disc { props: vec!["C01"], sig: "response-count-differs".into(), detail: format!("{} responses for {} messages", rs.len(), es.len()) });
                            }
                            for (i, (r, e)) in rs.iter().zip(es.iter()).enumerate() {
                                let helper_inst = matches!(op, Top::Exec { via: ExecVia::Helper, msg: Msg::Inst { .. }, .. });
                                let helper_exec = matches!(op, Top::Exec { via: ExecVia::Helper, msg: Msg::Exec { .. }, .. });
                                if helper_inst {
                                    // the helper returns the new address: must be the one the model created
                                    let want = info.out.created.last().cloned().unwrap_or_default();
                                    if r.data.as_ref().map(|d| d.to_vec()) != Some(want.clone().into_bytes()) {
                                        discs.push(Disc { props: vec!["C11", "C04"], sig: "instantiate-helper-returns-another-address".into(), detail: format!("expected {}, got {:?}", want, r.data) });
                                    }
                                    continue;
                                }
                                rep.bump("e1/responses/events_compared");
                                if r.events != e.events {
                                    discs.push(Disc { props: vec!["C04", "C13"], sig: "response-events-differ".into(), detail: format!("message #{}: expected [{}], observed [{}]", i, events_str(&e.events), events_str(&r.events)) });
                                }
                                // execute_contract unwraps the execute-response encoding again
                                let want_data = if helper_exec { unwrap_exec_model(e.data.clone()) } else { e.data.clone() };
                                rep.bump("e1/responses/data_compared");
                                if r.data.as_ref().map(|d| d.to_vec()) != want_data {
                                    discs.push(Disc { props: vec!["C04"], sig: "response-data-differs".into(), detail: format!("message #{}: expected {:?}, observed {:?}", i, want_data.map(|d| hex(&d)), r.data.as_ref().map(|d| hex(d))) });
                                }
                            }
                        }
                        (Err(_), Err(_)) => {}
                    }
                }
                // ---- state ----
                let after = rawstate::dump(self.app.storage());
                if got.is_err() {
                    rep.bump("e1/atomicity/err_state_unchanged_checks");
                    rep.add("e1/atomicity/bytes_compared", before.iter().map(|(k, v)| k.len() + v.len()).sum::<usize>() as u64);
                    if after != before {
                        // balances that moved and did not move back: attached funds are returned if the call fails (C05)
                        let bank_of = |r: &rawstate::Raw| r.iter().filter(|(k, _)| rawstate::module_of(k) == "bank").cloned().collect::<Vec<_>>();
                        let mut props = vec!["C01"];
                        if bank_of(&before) != bank_of(&after) && op_features(op).funds {
                            props.push("C05");
                        }
                        // the failure came from below the entered contract (a sub-message, a reply): its parent has not
                        // failed as a whole (C02)
                        if info.out.failures.iter().any(|f| f.1 >= 1 && !f.2) {
                            props.push("C02");
                        }
                        discs.push(Disc { props, sig: format!("failed-{}-left-state-changes", kind), detail: format!("{:?}: {:?}", short_op(op), rawstate::diff(&before, &after)) });
                        // what App queries show now: the committed state is still the one before the failed call
                        if let Some(detail) = app_queries_vs_committed(&self.app, &before, rep) {
                            discs.push(Disc { props: vec!["C10"], sig: format!("app-query-observes-effects-of-failed-{}", kind), detail: format!("{:?}: {}", short_op(op), detail) });
                        }
                    }
                }
                // I4 footprint: a wasm/bank transaction changes nothing outside the bank and wasm namespaces
                {
                    let outside = |r: &rawstate::Raw| -> Vec<(Vec<u8>, Vec<u8>)> {
                        r.iter().filter(|(k, _)| { let m = rawstate::module_of(k); m != "bank" && m != "wasm" && m != "vcustom" }).cloned().collect()
                    };
                    rep.bump("e1/footprint/checks");
                    if outside(&before) != outside(&after) {
                        discs.push(Disc { props: vec!["C08"], sig: "transaction-changed-raw-keys-outside-bank-and-wasm".into(), detail: format!("{}: {:?}", short_op(op), rawstate::diff(&outside(&before), &outside(&after))) });
                    }
                }
                // an instantiation that was rolled back (now or earlier in this history) must leave no trace: an address
                // or registry difference after one is also C02's / C01's subject
                self.rolled_back_insts += info.out.created.iter().filter(|a| !self.model.st.contracts.contains_key(*a)).count() as u64;
                if self.rolled_back_insts > 0 {
                    rep.bump("e1/transactions_after_a_rolled_back_instantiation");
                    for d in discs.iter_mut() {
                        if ["call-ran-at-another-address", "instantiate-helper-returns-another-address", "contract-registry-differs"].contains(&d.sig.as_str()) {
                            for p in ["C02", "C01"] {
                                if !d.props.contains(&p) {
                                    d.props.push(p);
                                }
                            }
                        }
                    }
                }
                // a transaction in which a malformed response occurs: its handling (rejection, rollback, catching like
                // any other contract error) is C13's subject
                if info.out.failures.iter().any(|f| f.0 == Why::BadAttribute) {
                    for d in discs.iter_mut() {
                        if !d.props.contains(&"C13") {
                            d.props.push("C13");
                        }
                    }
                }
                // ordering / per-message responses of execute_multi are part of C01
                if matches!(op, Top::Multi { msgs, .. } if msgs.len() > 1) {
                    for d in discs.iter_mut() {
                        if !d.props.contains(&"C01") {
                            d.props.push("C01");
                        }
                    }
                }
                if got.is_ok() == expected.is_ok() {
                    self.model = m;
                    if discs.is_empty() {
                        discs.extend(self.compare_state(rep, kind));
                    }
                }
                (discs, Some(info))
            }
        }
    }
}

pub struct OpFeatures {
    pub attrs: bool,
    pub admin: bool,
    pub inst: bool,
    pub funds: bool,
    pub bank: bool,
}

/// What kinds of things a transaction contains (used only to attribute an unexplained failure).
pub fn op_features(op: &Top) -> OpFeatures {
    let mut f = OpFeatures { attrs: false, admin: false, inst: false, funds: false, bank: false };
    fn in_script(s: &Script, f: &mut OpFeatures) {
        if !s.attrs.is_empty() || !s.events.is_empty() {
            f.attrs = true;
        }
        for sub in &s.msgs {
            in_msg(&sub.msg, f);
            if let Payload::Plan(p) = &sub.payload {
                in_script(&p.on_ok, f);
                in_script(&p.on_err, f);
            }
        }
    }
    fn in_msg(m: &Msg, f: &mut OpFeatures) {
        match m {
            Msg::Exec { script, funds, .. } => {
                if !funds.is_empty() {
                    f.funds = true;
                }
                in_script(script, f)
            }
            Msg::Inst { script, funds, .. } => {
                f.inst = true;
                if !funds.is_empty() {
                    f.funds = true;
                }
                in_script(script, f)
            }
            Msg::Migrate { script, .. } => {
                f.admin = true;
                in_script(script, f)
            }
            Msg::UpdateAdmin { .. } | Msg::ClearAdmin { .. } | Msg::Garbled { kind: 2, .. } => f.admin = true,
            Msg::Garbled { kind: 1, .. } => f.inst = true,
            Msg::BankSend { .. } | Msg::BankBurn { .. } => f.bank = true,
            _ => {}
        }
    }
    match op {
        Top::Exec { msg, .. } => in_msg(msg, &mut f),
        Top::Multi { msgs, .. } => msgs.iter().for_each(|m| in_msg(m, &mut f)),
        Top::Sudo { script, .. } => in_script(script, &mut f),
        Top::Mint { .. } => f.bank = true,
        _ => {}
    }
    f
}

fn unwrap_exec_model(d: Option<Vec<u8>>) -> Option<Vec<u8>> {
    // inverse of wrap_exec for a single bytes field #1
    let d = d?;
    if d.is_empty() {
        // an ExecuteResponse with empty data parses to `data: None`
        return None;
    }
    // field header 0x0A, varint length
    let mut i = 1;
    let mut len = 0usize;
    let mut shift = 0;
    while i < d.len() {
        let b = d[i];
        len |= ((b & 0x7F) as usize) << shift;
        i += 1;
        if b & 0x80 == 0 {
            break;
        }
        shift += 7;
    }
    Some(d[i..i + len].to_vec())
}

pub fn first_line(s: &str) -> String {
    s.lines().next().unwrap_or("").chars().take(160).collect()
}

pub fn short_op(op: &Top) -> String {
    let s = format!("{:?}", op);
    if s.len() > 400 {
        format!("{}…({} chars)", s.chars().take(400).collect::<String>(), s.len())
    } else {
        s
    }
}
