//! E7 — determinism engine (C19): the same history on twin, interleaved and separate-process
//! instances (and under Miri with isolation); everything observable must be identical.

use crate::core::*;
use crate::engines::e1_chain::{Case as ChainCase, Top, World};
use crate::model::chain::ApiKind;
use crate::engines::e1_gen::{Gen, Profile};
use crate::engines::e1_run::{finish_transcript, run_history_t, HistoryOpts};
use crate::engines::{e3_bank, e4_staking};
use crate::rawstate;
use crate::rng::{derive, Rng};
use sha2::{Digest, Sha256};

pub fn sha(lines: &[String]) -> String {
    let mut h = Sha256::new();
    for l in lines {
        h.update(l.as_bytes());
        h.update(b"\n");
    }
    hex(&h.finalize())
}

/// Generates chain history number `i` for `seed` and returns (program, solo transcript).
pub fn chain_history(seed: u64, i: u64, len: usize) -> (ChainCase, Vec<String>) {
    let mut rng = Rng::new(derive(seed, "C19-chain", 0, i));
    let mut p = Profile::base();
    p.registry_pct = 15;
    p.admin_pct = 8;
    let api = *rng.pick(&[ApiKind::Std, ApiKind::Std, ApiKind::Bech32, ApiKind::Bech32m, ApiKind::Plain]);
    let opts = HistoryOpts { profile: p, len, sweep: false, matrix: false, api, prestored: rng.chance(1, 4), one_address_per_code: rng.chance(1, 12) };
    let mut scratch = Report::new();
    let (case, _discs, t) = run_history_t(&mut rng, &opts, &mut scratch, "C19", true);
    (case, t.unwrap_or_default())
}

/// Replays a chain program on a fresh instance.
pub fn chain_replay(case: &ChainCase) -> Vec<String> {
    let mut scratch = Report::new();
    let mut w = World::for_case(case);
    w.transcript = Some(vec![]);
    for op in &case.ops {
        let _ = w.step(op, &mut scratch);
    }
    finish_transcript(&mut w).unwrap_or_default()
}

/// Two instances fed the same program operation by operation, alternating, while a third
/// instance does unrelated work in between. Returns the two transcripts and the number of noise steps.
pub fn chain_interleaved(case: &ChainCase, noise_seed: u64) -> (Vec<String>, Vec<String>, u64) {
    let mut scratch = Report::new();
    let mut a = World::for_case(case);
    let mut b = World::for_case(case);
    let mut c = World::new();
    a.transcript = Some(vec![]);
    b.transcript = Some(vec![]);
    let mut rng = Rng::new(noise_seed);
    let mut noise = 0u64;
    // the third instance gets its own setup so that it has codes and contracts to play with
    let users = c.users.clone();
    for op in crate::engines::e1_run::setup_ops(&users, &mut rng) {
        let _ = c.step(&op, &mut scratch);
    }
    let mut tagbase = 500_000u32;
    for (i, op) in case.ops.iter().enumerate() {
        // early on the third instance runs a contract that panics (caught, as a test would)
        if i == 3 {
            noise += panicking_calls(&mut c.app) as u64;
        }
        // alternate which twin goes first
        if i % 2 == 0 {
            let _ = a.step(op, &mut scratch);
        } else {
            let _ = b.step(op, &mut scratch);
        }
        for _ in 0..rng.range(0, 2) {
            tagbase += 1000;
            let users = c.users.clone();
            let nop: Top = {
                let mut g = Gen::new(&mut rng, Profile::base(), users, tagbase);
                g.top(&c.model)
            };
            let _ = c.step(&nop, &mut scratch);
            noise += 1;
        }
        if i % 2 == 0 {
            let _ = b.step(op, &mut scratch);
        } else {
            let _ = a.step(op, &mut scratch);
        }
    }
    (finish_transcript(&mut a).unwrap_or_default(), finish_transcript(&mut b).unwrap_or_default(), noise)
}

pub fn staking_history(seed: u64, i: u64) -> e4_staking::Case {
    let mut rng = Rng::new(derive(seed, "C19-staking", 0, i));
    let mut scratch = Report::new();
    let len = rng.range(20, 50) as usize;
    e4_staking::run_random(&mut rng, len, e4_staking::Mix::Uniform, false, &mut scratch).0
}

pub fn staking_transcript(case: &e4_staking::Case) -> Vec<String> {
    let mut inst = e4_staking::Inst::new(&case.params);
    let mut t = vec![];
    for op in &case.ops {
        let r = inst.exec(op, false);
        t.push(match r {
            Ok(Ok(())) => "ok".to_string(),
            Ok(Err(_)) => "err".to_string(),
            Err(_) => "panic".to_string(),
        });
        for d in 0..3 {
            for v in e4_staking::validators(&case.params) {
                t.push(format!("{:?}", inst.delegation(d, &v).ok()));
            }
        }
    }
    let raw = rawstate::dump(inst.app.storage());
    t.push(format!("final-storage {}", raw.iter().map(|(k, v)| format!("{}={}", hex(k), hex(v))).collect::<Vec<_>>().join(",")));
    t
}

/// Two instances fed the same staking program operation by operation in lock-step (the first instance first for even
/// steps, the second first for odd ones): same validators, same block times, same delegators on one thread.
pub fn staking_lockstep(case: &e4_staking::Case) -> (Vec<String>, Vec<String>) {
    let mut insts = [e4_staking::Inst::new(&case.params), e4_staking::Inst::new(&case.params)];
    let mut ts: [Vec<String>; 2] = [vec![], vec![]];
    for (i, op) in case.ops.iter().enumerate() {
        for k in 0..2 {
            let which = (i + k) % 2;
            let inst = &mut insts[which];
            let r = inst.exec(op, false);
            ts[which].push(match r {
                Ok(Ok(())) => "ok".to_string(),
                Ok(Err(_)) => "err".to_string(),
                Err(_) => "panic".to_string(),
            });
            for d in 0..3 {
                for v in e4_staking::validators(&case.params) {
                    ts[which].push(format!("{:?}", inst.delegation(d, &v).ok()));
                }
            }
        }
    }
    for which in 0..2 {
        let raw = rawstate::dump(insts[which].app.storage());
        ts[which].push(format!("final-storage {}", raw.iter().map(|(k, v)| format!("{}={}", hex(k), hex(v))).collect::<Vec<_>>().join(",")));
    }
    let [a, b] = ts;
    (a, b)
}

/// The same for bank programs.
pub fn bank_lockstep(case: &e3_bank::Case) -> (Vec<String>, Vec<String>) {
    let mut ws = [e3_bank::World::for_case(case), e3_bank::World::for_case(case)];
    let mut scratch = Report::new();
    let mut ts: [Vec<String>; 2] = [vec![], vec![]];
    for (i, op) in case.ops.iter().enumerate() {
        for k in 0..2 {
            let which = (i + k) % 2;
            let before = ws[which].log.len();
            let _ = e3_bank::apply(&mut ws[which], op, &mut scratch);
            ts[which].push(format!("{:?}", ws[which].log.get(before)));
        }
    }
    for which in 0..2 {
        let raw = rawstate::dump(ws[which].app.storage());
        ts[which].push(format!("final-storage {}", raw.iter().map(|(k, v)| format!("{}={}", hex(k), hex(v))).collect::<Vec<_>>().join(",")));
    }
    let [a, b] = ts;
    (a, b)
}

pub fn bank_history(seed: u64, i: u64) -> e3_bank::Case {
    let mut rng = Rng::new(derive(seed, "C19-bank", 0, i));
    let mut scratch = Report::new();
    e3_bank::run_random(&mut rng, 40, &mut scratch).0
}

pub fn bank_transcript(case: &e3_bank::Case) -> Vec<String> {
    let mut w = e3_bank::World::for_case(case);
    let mut scratch = Report::new();
    let mut t = vec![];
    for op in &case.ops {
        let before = w.log.len();
        let _ = e3_bank::apply(&mut w, op, &mut scratch);
        t.push(format!("{:?}", w.log.get(before)));
    }
    let raw = rawstate::dump(w.app.storage());
    t.push(format!("final-storage {}", raw.iter().map(|(k, v)| format!("{}={}", hex(k), hex(v))).collect::<Vec<_>>().join(",")));
    t
}

/// Runs `f` on a thread of its own (fresh thread-local state, discarded afterwards).
pub fn on_fresh_thread<T: Send>(f: impl FnOnce() -> T + Send) -> Result<T, String> {
    std::thread::scope(|s| {
        std::thread::Builder::new()
            .stack_size(256 << 20)
            .spawn_scoped(s, move || catch(f))
            .expect("spawn")
            .join()
            .map_err(|_| "thread panicked".to_string())
            .and_then(|r| r)
    })
}

/// Staking and bank programs, generated once (by whoever; generation itself drives instances and is kept away
/// from the executions that are compared: it runs on a thread of its own, or in another process).
#[derive(Clone, Debug, Default, serde::Serialize, serde::Deserialize)]
pub struct OtherCases {
    pub staking: Vec<e4_staking::Case>,
    pub bank: Vec<e3_bank::Case>,
}

pub fn other_cases(seed: u64, n: u64) -> OtherCases {
    let mut out = OtherCases::default();
    for i in 0..n {
        if let (Ok(s), Ok(b)) = (on_fresh_thread(|| staking_history(seed, i)), on_fresh_thread(|| bank_history(seed, i))) {
            out.staking.push(s);
            out.bank.push(b);
        }
    }
    out
}

/// One line per history: "<kind> <index> <sha256 of the solo transcript>". A history whose generation or
/// replay panics (e.g. because a fresh instance cannot even be set up any more) yields the digest "PANIC",
/// which then differs from the digest of an execution where it worked. Sorted, so that the order of execution
/// (`other_first`: staking and bank replays before the chain histories) does not matter to the comparison.
pub fn digest_lines(seed: u64, chain_n: u64, chain_len: usize, other: &OtherCases, other_first: bool) -> Vec<String> {
    let mut out = vec![];
    let chain = |out: &mut Vec<String>| {
        for i in 0..chain_n {
            let d = catch(|| sha(&chain_history(seed, i, chain_len).1)).unwrap_or_else(|_| "PANIC".into());
            out.push(format!("chain {:06} {}", i, d));
        }
    };
    let others = |out: &mut Vec<String>| {
        for (i, c) in other.staking.iter().enumerate() {
            let d = catch(|| sha(&staking_transcript(c))).unwrap_or_else(|_| "PANIC".into());
            out.push(format!("staking {:06} {}", i, d));
        }
        for (i, c) in other.bank.iter().enumerate() {
            let d = catch(|| sha(&bank_transcript(c))).unwrap_or_else(|_| "PANIC".into());
            out.push(format!("bank {:06} {}", i, d));
        }
    };
    if other_first {
        others(&mut out);
        chain(&mut out);
    } else {
        chain(&mut out);
        others(&mut out);
    }
    out.sort();
    out
}

pub fn first_diff(a: &[String], b: &[String]) -> String {
    for (i, (x, y)) in a.iter().zip(b.iter()).enumerate() {
        if x != y {
            let cut = |s: &String| if s.len() > 300 { format!("{}…", s.chars().take(300).collect::<String>()) } else { s.clone() };
            return format!("record #{} differs: [{}] vs [{}]", i, cut(x), cut(y));
        }
    }
    format!("lengths differ: {} vs {}", a.len(), b.len())
}


// --- a contract whose entry points panic ---------------------------------------------------------------------
// Contracts panic (an overflow, an unwrap) and tests catch that (#[should_panic], catch_unwind). Whatever a panicking
// call leaves behind has to stay with the instance it happened in: other instances, and instances built later in the
// same thread or process, behave as if it had never happened.

fn pn_instantiate(_d: cosmwasm_std::DepsMut<crate::puppet::PQuery>, _e: cosmwasm_std::Env, _i: cosmwasm_std::MessageInfo, _m: cosmwasm_std::Empty) -> cosmwasm_std::StdResult<cosmwasm_std::Response<crate::puppet::PMsg>> {
    Ok(cosmwasm_std::Response::new())
}
fn pn_execute(deps: cosmwasm_std::DepsMut<crate::puppet::PQuery>, _e: cosmwasm_std::Env, _i: cosmwasm_std::MessageInfo, _m: cosmwasm_std::Empty) -> cosmwasm_std::StdResult<cosmwasm_std::Response<crate::puppet::PMsg>> {
    deps.storage.set(b"before-the-panic", b"x");
    let v: Vec<u8> = vec![];
    let n = cosmwasm_std::Uint128::MAX + cosmwasm_std::Uint128::new(v.len() as u128 + 1);
    Ok(cosmwasm_std::Response::new().add_attribute("n", n.to_string()))
}
fn pn_query(_d: cosmwasm_std::Deps<crate::puppet::PQuery>, _e: cosmwasm_std::Env, _m: cosmwasm_std::Empty) -> cosmwasm_std::StdResult<cosmwasm_std::Binary> {
    let none: Option<cosmwasm_std::Binary> = None;
    Ok(none.expect("the panicking contract's query"))
}
fn pn_sudo(deps: cosmwasm_std::DepsMut<crate::puppet::PQuery>, _e: cosmwasm_std::Env, _m: cosmwasm_std::Empty) -> cosmwasm_std::StdResult<cosmwasm_std::Response<crate::puppet::PMsg>> {
    deps.storage.set(b"before-the-panic", b"y");
    panic!("the panicking contract's sudo");
}

/// Stores and instantiates the panicking contract on this instance and calls its execute, query and sudo entry
/// points, catching the panics. Returns how many calls panicked (3 expected).
pub static PANICS_CAUGHT_ON_OTHER_INSTANCES: std::sync::atomic::AtomicU64 = std::sync::atomic::AtomicU64::new(0);

pub fn panicking_calls(app: &mut crate::engines::e1_chain::PApp) -> u32 {
    use cw_multi_test::Executor;
    let owner = app.api().addr_make("panic-owner");
    // (an instance that holds a code with the highest possible id has no id left: storing another code panics by design)
    let code = match catch(|| app.store_code(Box::new(cw_multi_test::ContractWrapper::new(pn_execute, pn_instantiate, pn_query).with_sudo(pn_sudo)))) {
        Ok(c) => c,
        Err(_) => return 0,
    };
    let addr = match app.instantiate_contract(code, owner.clone(), &cosmwasm_std::Empty {}, &[], "panicker", None) {
        Ok(a) => a,
        Err(_) => return 0,
    };
    let mut n = 0;
    if catch(|| app.execute_contract(owner.clone(), addr.clone(), &cosmwasm_std::Empty {}, &[])).is_err() {
        n += 1;
    }
    if catch(|| app.wrap().query_wasm_smart::<cosmwasm_std::Binary>(addr.clone(), &cosmwasm_std::Empty {})).is_err() {
        n += 1;
    }
    if catch(|| app.wasm_sudo(addr.clone(), &cosmwasm_std::Empty {})).is_err() {
        n += 1;
    }
    PANICS_CAUGHT_ON_OTHER_INSTANCES.fetch_add(n as u64, std::sync::atomic::Ordering::Relaxed);
    n
}

/// Exercises a differently configured instance (other address prefix / block): codes, contracts
/// (classic and salted addresses), bank, failing calls. Results are ignored.
pub fn run_foreign_instance(seed: u64) {
    let mut scratch = Report::new();
    let mut f = World::new_foreign("juno");
    let mut rng = Rng::new(seed ^ 0x5EED);
    let users = f.users.clone();
    for op in crate::engines::e1_run::setup_ops(&users, &mut rng) {
        let _ = f.step(&op, &mut scratch);
    }
    let mut tagbase = 900_000u32;
    for _ in 0..6 {
        tagbase += 1000;
        let users = f.users.clone();
        let op = {
            let mut g = Gen::new(&mut rng, Profile::base(), users, tagbase);
            g.top(&f.model)
        };
        let _ = f.step(&op, &mut scratch);
    }
    // instances with this chain's own prefix under each of the other codecs: what they validated or made stays theirs
    for kind in [ApiKind::Bech32, ApiKind::Bech32m, ApiKind::Plain] {
        let mut o = World::with_api(kind);
        let users = o.users.clone();
        for op in crate::engines::e1_run::setup_ops(&users, &mut rng) {
            let _ = o.step(&op, &mut scratch);
        }
    }
    // ... and a contract that panics in execute, query and sudo (caught here, as a test would)
    let _ = panicking_calls(&mut f.app);
    let _ = crate::puppet::take_trace();
}

/// The program replayed on a fresh thread (fresh thread-locals) in which a differently configured
/// instance has been used first.
pub fn chain_after_foreign(case: &ChainCase, seed: u64) -> Result<Vec<String>, String> {
    let case = case.clone();
    on_fresh_thread(move || {
        crate::core::install_quiet_panic_hook();
        // a panic while the other instances are driven is theirs (or the harness's): it is reported apart from a
        // panic of the replayed instance
        if let Err(p) = catch(|| run_foreign_instance(seed)) {
            return Err(format!("while driving the other instances: {}", p));
        }
        catch(|| chain_replay(&case)).map_err(|p| format!("while replaying the program after the other instances: {}", p))
    })
    .and_then(|r| r)
}
