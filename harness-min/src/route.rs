//! vcheck-c17-feat — the routing probe of property C17 on a build of cw-multi-test with a REDUCED feature set
//! (the features of this crate map one-to-one onto cw-multi-test's; cosmwasm-std gets its features through
//! cw-multi-test only, so every message / query variant that exists in this build is one the router must deliver).
//! Started by `vcheck C17`; prints one JSON document:
//! {"features": "...", "cells": n, "log_entries_checked": n, "kinds": [...], "violations": [[signature, detail], ...]}.
//!
//! Recording modules sit in every configurable slot (custom, staking, distribution, ibc, gov, stargate). A cell is
//! (kind of message or query) x (origin: top level, message of a contract, sub-message with reply, contract at depth 2)
//! x (target module accepting / failing). Oracle: exactly one new log entry, in the module of that kind, with the true
//! sender and the payload that was sent; the caller sees the module's verdict; a failed transaction leaves the raw
//! storage byte-identical.

use cosmwasm_std::testing::{MockApi, MockStorage};
#[allow(unused_imports)]
use cosmwasm_std::{
    coin, to_json_binary, to_json_vec, Addr, AnyMsg, Api, BankMsg, Binary, BlockInfo, ContractResult, CosmosMsg, CustomMsg, CustomQuery, Deps, DepsMut, Empty, Env, Event, GrpcQuery, IbcMsg, IbcQuery,
    MessageInfo, Order, Querier, QueryRequest, Reply, Response, StdError, StdResult, Storage, SubMsg, SystemResult, WasmMsg,
};
use cw_multi_test::error::AnyResult;
use cw_multi_test::{App, AppBuilder, AppResponse, BankKeeper, ContractWrapper, CosmosRouter, Distribution, Executor, Gov, Ibc, Module, Stargate, Staking, WasmKeeper};
use serde::de::DeserializeOwned;
use serde::{Deserialize, Serialize};
use serde_json::json;
use std::cell::RefCell;
use std::collections::BTreeSet;
use std::marker::PhantomData;
use std::rc::Rc;

#[derive(Clone, Debug, PartialEq)]
struct LogEntry {
    module: &'static str,
    kind: &'static str,
    sender: Option<String>,
    payload: String,
}

#[derive(Clone, Default)]
struct Hub {
    log: Rc<RefCell<Vec<LogEntry>>>,
    failing: Rc<RefCell<BTreeSet<&'static str>>>,
}

impl Hub {
    fn record(&self, module: &'static str, kind: &'static str, sender: Option<String>, payload: String) -> usize {
        self.log.borrow_mut().push(LogEntry { module, kind, sender, payload });
        self.log.borrow().len()
    }
    fn fails(&self, m: &'static str) -> bool {
        self.failing.borrow().contains(m)
    }
}

fn marker_key(module: &str, n: usize) -> Vec<u8> {
    format!("\x00\x03rec{}/{}", module, n).into_bytes()
}

struct Rec<E, Q, S> {
    name: &'static str,
    hub: Hub,
    _p: PhantomData<(E, Q, S)>,
}

impl<E, Q, S> Rec<E, Q, S> {
    fn new(name: &'static str, hub: &Hub) -> Self {
        Rec { name, hub: hub.clone(), _p: PhantomData }
    }
}

impl<E: std::fmt::Debug, Q: std::fmt::Debug, S: std::fmt::Debug> Module for Rec<E, Q, S> {
    type ExecT = E;
    type QueryT = Q;
    type SudoT = S;

    fn execute<ExecC, QueryC>(&self, _api: &dyn Api, storage: &mut dyn Storage, _router: &dyn CosmosRouter<ExecC = ExecC, QueryC = QueryC>, _block: &BlockInfo, sender: Addr, msg: E) -> AnyResult<AppResponse>
    where
        ExecC: CustomMsg + DeserializeOwned + 'static,
        QueryC: CustomQuery + DeserializeOwned + 'static,
    {
        let n = self.hub.record(self.name, "exec", Some(sender.to_string()), format!("{:?}", msg));
        storage.set(&marker_key(self.name, n), b"x");
        if self.hub.fails(self.name) {
            return Err(StdError::generic_err(format!("recording module {} is configured to fail", self.name)).into());
        }
        Ok(AppResponse { events: vec![Event::new("rec").add_attribute("module", self.name)], data: Some(Binary::from(self.name.as_bytes().to_vec())) })
    }

    fn query(&self, _api: &dyn Api, _storage: &dyn Storage, _querier: &dyn Querier, _block: &BlockInfo, request: Q) -> AnyResult<Binary> {
        self.hub.record(self.name, "query", None, format!("{:?}", request));
        if self.hub.fails(self.name) {
            return Err(StdError::generic_err(format!("recording module {} is configured to fail", self.name)).into());
        }
        Ok(Binary::from(format!("\"{}-answer\"", self.name).into_bytes()))
    }

    fn sudo<ExecC, QueryC>(&self, _api: &dyn Api, storage: &mut dyn Storage, _router: &dyn CosmosRouter<ExecC = ExecC, QueryC = QueryC>, _block: &BlockInfo, msg: S) -> AnyResult<AppResponse>
    where
        ExecC: CustomMsg + DeserializeOwned + 'static,
        QueryC: CustomQuery + DeserializeOwned + 'static,
    {
        let n = self.hub.record(self.name, "sudo", None, format!("{:?}", msg));
        storage.set(&marker_key(self.name, n), b"x");
        if self.hub.fails(self.name) {
            return Err(StdError::generic_err(format!("recording module {} is configured to fail", self.name)).into());
        }
        Ok(AppResponse::default())
    }
}

#[cfg(feature = "staking")]
type StakingRec = Rec<cosmwasm_std::StakingMsg, cosmwasm_std::StakingQuery, cw_multi_test::StakingSudo>;
#[cfg(feature = "staking")]
type DistrRec = Rec<cosmwasm_std::DistributionMsg, Empty, Empty>;
#[cfg(not(feature = "staking"))]
type StakingRec = Rec<Empty, Empty, Empty>;
#[cfg(not(feature = "staking"))]
type DistrRec = Rec<Empty, Empty, Empty>;
#[cfg(feature = "stargate")]
type GovRec = Rec<cosmwasm_std::GovMsg, Empty, Empty>;
#[cfg(not(feature = "stargate"))]
type GovRec = Rec<Empty, Empty, Empty>;
type IbcRec = Rec<IbcMsg, IbcQuery, Empty>;
type CustomRec = Rec<Empty, Empty, Empty>;

impl Staking for StakingRec {}
impl Distribution for DistrRec {}
impl Gov for GovRec {}
impl Ibc for IbcRec {}

fn hexs(b: &[u8]) -> String {
    b.iter().map(|x| format!("{:02x}", x)).collect()
}

struct RecStargate {
    hub: Hub,
}
impl Stargate for RecStargate {
    fn execute_stargate<ExecC, QueryC>(&self, _api: &dyn Api, storage: &mut dyn Storage, _router: &dyn CosmosRouter<ExecC = ExecC, QueryC = QueryC>, _block: &BlockInfo, sender: Addr, type_url: String, value: Binary) -> AnyResult<AppResponse>
    where
        ExecC: CustomMsg + DeserializeOwned + 'static,
        QueryC: CustomQuery + DeserializeOwned + 'static,
    {
        let n = self.hub.record("stargate", "exec", Some(sender.to_string()), format!("stargate {} {}", type_url, hexs(&value)));
        storage.set(&marker_key("stargate", n), b"x");
        if self.hub.fails("stargate") {
            return Err(StdError::generic_err("recording stargate handler is configured to fail").into());
        }
        Ok(AppResponse { events: vec![], data: Some(Binary::from(b"stargate".to_vec())) })
    }
    fn query_stargate(&self, _api: &dyn Api, _storage: &dyn Storage, _querier: &dyn Querier, _block: &BlockInfo, path: String, data: Binary) -> AnyResult<Binary> {
        self.hub.record("stargate", "query", None, format!("stargate {} {}", path, hexs(&data)));
        if self.hub.fails("stargate") {
            return Err(StdError::generic_err("recording stargate handler is configured to fail").into());
        }
        Ok(Binary::from(b"\"stargate-answer\"".to_vec()))
    }
    fn execute_any<ExecC, QueryC>(&self, _api: &dyn Api, storage: &mut dyn Storage, _router: &dyn CosmosRouter<ExecC = ExecC, QueryC = QueryC>, _block: &BlockInfo, sender: Addr, msg: AnyMsg) -> AnyResult<AppResponse>
    where
        ExecC: CustomMsg + DeserializeOwned + 'static,
        QueryC: CustomQuery + DeserializeOwned + 'static,
    {
        let n = self.hub.record("stargate", "exec", Some(sender.to_string()), format!("any {} {}", msg.type_url, hexs(&msg.value)));
        storage.set(&marker_key("stargate", n), b"x");
        if self.hub.fails("stargate") {
            return Err(StdError::generic_err("recording stargate handler is configured to fail").into());
        }
        Ok(AppResponse { events: vec![], data: Some(Binary::from(b"any".to_vec())) })
    }
    fn query_grpc(&self, _api: &dyn Api, _storage: &dyn Storage, _querier: &dyn Querier, _block: &BlockInfo, request: GrpcQuery) -> AnyResult<Binary> {
        self.hub.record("stargate", "query", None, format!("grpc {} {}", request.path, hexs(&request.data)));
        if self.hub.fails("stargate") {
            return Err(StdError::generic_err("recording stargate handler is configured to fail").into());
        }
        Ok(Binary::from(b"\"grpc-answer\"".to_vec()))
    }
}

type RApp = App<BankKeeper, MockApi, MockStorage, CustomRec, WasmKeeper<Empty, Empty>, StakingRec, DistrRec, IbcRec, GovRec, RecStargate>;

// --- the forwarding contract ----------------------------------------------------------------------

#[derive(Serialize, Deserialize, Clone, Debug)]
struct Fwd {
    msgs: Vec<CosmosMsg>,
    /// 0 = plain message, 1 = sub-message with reply_always, 2 = sub-message with reply_on_error
    mode: u8,
    queries: Vec<QueryRequest<Empty>>,
}

fn raw(deps: Deps, q: &QueryRequest<Empty>) -> String {
    match deps.querier.raw_query(&to_json_vec(q).unwrap()) {
        SystemResult::Ok(ContractResult::Ok(b)) => format!("ok:{}", String::from_utf8_lossy(b.as_slice())),
        SystemResult::Ok(ContractResult::Err(e)) => format!("err:{}", e.chars().take(60).collect::<String>()),
        SystemResult::Err(e) => format!("syserr:{}", e.to_string().chars().take(60).collect::<String>()),
    }
}

fn f_execute(deps: DepsMut, _e: Env, _i: MessageInfo, m: Fwd) -> StdResult<Response> {
    let mut r = Response::new();
    for (i, q) in m.queries.iter().enumerate() {
        r = r.add_attribute(format!("q{}", i), raw(deps.as_ref(), q));
    }
    for (i, msg) in m.msgs.into_iter().enumerate() {
        r = match m.mode {
            0 => r.add_message(msg),
            1 => r.add_submessage(SubMsg::reply_always(msg, 100 + i as u64)),
            _ => r.add_submessage(SubMsg::reply_on_error(msg, 200 + i as u64)),
        };
    }
    Ok(r)
}
fn f_instantiate(_d: DepsMut, _e: Env, _i: MessageInfo, _m: Empty) -> StdResult<Response> {
    Ok(Response::new())
}
fn f_query(deps: Deps, _e: Env, q: QueryRequest<Empty>) -> StdResult<Binary> {
    Ok(Binary::from(raw(deps, &q).into_bytes()))
}
#[allow(deprecated)]
fn f_reply(_d: DepsMut, _e: Env, r: Reply) -> StdResult<Response> {
    let seen = match &r.result {
        cosmwasm_std::SubMsgResult::Ok(ok) => format!("ok:{}", ok.data.as_ref().map(|d| String::from_utf8_lossy(d.as_slice()).to_string()).unwrap_or_else(|| "-".into())),
        cosmwasm_std::SubMsgResult::Err(_) => "err".to_string(),
    };
    Ok(Response::new().add_attribute("replied", format!("{}:{}", r.id, seen)))
}

// --- kinds ---------------------------------------------------------------------------------------------

/// (name, module, message, payload the module must have logged)
#[allow(unused_mut, deprecated)]
fn message_kinds(n: u64) -> Vec<(&'static str, &'static str, CosmosMsg, String)> {
    let mut v: Vec<(&'static str, &'static str, CosmosMsg, String)> = vec![("custom", "custom", CosmosMsg::Custom(Empty {}), format!("{:?}", Empty {}))];
    #[cfg(feature = "staking")]
    {
        let m = cosmwasm_std::StakingMsg::Delegate { validator: format!("val{}", n), amount: coin(n as u128 + 1, "ustake") };
        v.push(("staking", "staking", m.clone().into(), format!("{:?}", m)));
        let m = cosmwasm_std::DistributionMsg::SetWithdrawAddress { address: format!("addr{}", n) };
        v.push(("distribution", "distribution", m.clone().into(), format!("{:?}", m)));
    }
    #[cfg(feature = "stargate")]
    {
        let m = IbcMsg::CloseChannel { channel_id: format!("channel-{}", n) };
        v.push(("ibc", "ibc", m.clone().into(), format!("{:?}", m)));
        let m = cosmwasm_std::GovMsg::Vote { proposal_id: n, option: cosmwasm_std::VoteOption::NoWithVeto };
        v.push(("gov", "gov", m.clone().into(), format!("{:?}", m)));
        v.push(("stargate", "stargate", CosmosMsg::Stargate { type_url: format!("/t.{}", n), value: Binary::from(vec![n as u8, 2]) }, format!("stargate /t.{} {}", n, hexs(&[n as u8, 2]))));
    }
    #[cfg(feature = "cosmwasm_2_0")]
    {
        v.push(("any", "stargate", CosmosMsg::Any(AnyMsg { type_url: format!("/a.{}", n), value: Binary::from(vec![n as u8, 3]) }), format!("any /a.{} {}", n, hexs(&[n as u8, 3]))));
    }
    v
}

/// (name, module, request, payload logged, the answer)
#[allow(unused_mut, deprecated)]
fn query_kinds(n: u64) -> Vec<(&'static str, &'static str, QueryRequest<Empty>, String, &'static str)> {
    let mut v: Vec<(&'static str, &'static str, QueryRequest<Empty>, String, &'static str)> = vec![("custom", "custom", QueryRequest::Custom(Empty {}), format!("{:?}", Empty {}), "\"custom-answer\"")];
    #[cfg(feature = "staking")]
    {
        let q = cosmwasm_std::StakingQuery::Validator { address: format!("val{}", n) };
        v.push(("staking", "staking", q.clone().into(), format!("{:?}", q), "\"staking-answer\""));
    }
    #[cfg(feature = "stargate")]
    {
        let q = IbcQuery::ListChannels { port_id: Some(format!("port{}", n)) };
        v.push(("ibc", "ibc", q.clone().into(), format!("{:?}", q), "\"ibc-answer\""));
        v.push(("stargate", "stargate", QueryRequest::Stargate { path: format!("/q.{}", n), data: Binary::from(vec![n as u8]) }, format!("stargate /q.{} {}", n, hexs(&[n as u8])), "\"stargate-answer\""));
    }
    #[cfg(feature = "cosmwasm_2_0")]
    {
        v.push(("grpc", "stargate", QueryRequest::Grpc(GrpcQuery { path: format!("/g.{}", n), data: Binary::from(vec![n as u8, 9]) }), format!("grpc /g.{} {}", n, hexs(&[n as u8, 9])), "\"grpc-answer\""));
    }
    v
}

fn features() -> String {
    let mut f: Vec<&str> = vec![];
    if cfg!(feature = "staking") {
        f.push("staking");
    }
    if cfg!(feature = "stargate") {
        f.push("stargate");
    }
    if cfg!(feature = "cosmwasm_1_2") {
        f.push("cosmwasm_1_2");
    }
    if cfg!(feature = "cosmwasm_1_4") {
        f.push("cosmwasm_1_4");
    }
    if cfg!(feature = "cosmwasm_2_0") {
        f.push("cosmwasm_2_0");
    }
    if f.is_empty() {
        "default".into()
    } else {
        f.join("+")
    }
}

struct W {
    app: RApp,
    hub: Hub,
    user: Addr,
    c1: Addr,
    c2: Addr,
}

fn world() -> W {
    let hub = Hub::default();
    let app: RApp = AppBuilder::new()
        .with_custom(CustomRec::new("custom", &hub))
        .with_staking(StakingRec::new("staking", &hub))
        .with_distribution(DistrRec::new("distribution", &hub))
        .with_ibc(IbcRec::new("ibc", &hub))
        .with_gov(GovRec::new("gov", &hub))
        .with_stargate(RecStargate { hub: hub.clone() })
        .build(|_, _, _| {});
    let mut app = app;
    let user = app.api().addr_make("user");
    let code = app.store_code(Box::new(ContractWrapper::new(f_execute, f_instantiate, f_query).with_reply(f_reply)));
    let c1 = app.instantiate_contract(code, user.clone(), &Empty {}, &[], "fwd1", None).unwrap();
    let c2 = app.instantiate_contract(code, user.clone(), &Empty {}, &[], "fwd2", None).unwrap();
    W { app, hub, user, c1, c2 }
}

fn dump(app: &RApp) -> Vec<(Vec<u8>, Vec<u8>)> {
    app.storage().range(None, None, Order::Ascending).collect()
}

fn main() {
    let seeds: Vec<u64> = std::env::args().skip(1).filter_map(|s| s.parse().ok()).collect();
    let feats = features();
    let mut violations: Vec<serde_json::Value> = vec![];
    let (mut cells, mut entries) = (0u64, 0u64);
    std::panic::set_hook(Box::new(|_| {}));
    let kinds: Vec<String> = message_kinds(0).iter().map(|k| format!("msg:{}", k.0)).chain(query_kinds(0).iter().map(|k| format!("query:{}", k.0))).collect();
    for seed in seeds {
        let mut w = world();
        let mut n = seed.wrapping_mul(37) % 200;
        for failing in [false, true] {
            for (name, module, msg, payload) in message_kinds(n) {
                for origin in 0..4u8 {
                    n += 1;
                    let (name, module, msg, payload) = {
                        let k = message_kinds(n).into_iter().find(|k| k.0 == name).unwrap();
                        let _ = (&msg, &payload, module);
                        k
                    };
                    cells += 1;
                    {
                        let mut f = w.hub.failing.borrow_mut();
                        f.clear();
                        if failing {
                            f.insert(module);
                        }
                    }
                    let before_log = w.hub.log.borrow().len();
                    let before = dump(&w.app);
                    let (call, sender): (CosmosMsg, String) = match origin {
                        0 => (msg.clone(), w.user.to_string()),
                        1 | 2 => (
                            WasmMsg::Execute { contract_addr: w.c1.to_string(), msg: to_json_binary(&Fwd { msgs: vec![msg.clone()], mode: if origin == 1 { 0 } else if failing { 2 } else { 1 }, queries: vec![] }).unwrap(), funds: vec![] }.into(),
                            w.c1.to_string(),
                        ),
                        _ => {
                            let inner: CosmosMsg = WasmMsg::Execute { contract_addr: w.c2.to_string(), msg: to_json_binary(&Fwd { msgs: vec![msg.clone()], mode: 0, queries: vec![] }).unwrap(), funds: vec![] }.into();
                            (WasmMsg::Execute { contract_addr: w.c1.to_string(), msg: to_json_binary(&Fwd { msgs: vec![inner], mode: 1, queries: vec![] }).unwrap(), funds: vec![] }.into(), w.c2.to_string())
                        }
                    };
                    let user = w.user.clone();
                    let res = std::panic::catch_unwind(std::panic::AssertUnwindSafe(|| w.app.execute(user, call)));
                    let cell = format!("build [{}]: {} message, origin {}, module {} {}", feats, name, ["top level", "message of a contract", "sub-message of a contract", "message of a contract at depth 2"][origin as usize], module, if failing { "failing" } else { "accepting" });
                    let res = match res {
                        Ok(r) => r,
                        Err(_) => {
                            violations.push(json!([format!("{}-message-panics-in-a-reduced-feature-build", name), cell]));
                            w = world();
                            continue;
                        }
                    };
                    let new: Vec<LogEntry> = w.hub.log.borrow()[before_log..].to_vec();
                    let want = LogEntry { module, kind: "exec", sender: Some(sender), payload: payload.clone() };
                    entries += new.len() as u64;
                    if new != vec![want.clone()] {
                        violations.push(json!([format!("{}-message-not-delivered-once-to-its-module-in-a-reduced-feature-build", name), format!("{}: log {:?}, expected [{:?}]; result {:?}", cell, new, want, res.as_ref().map(|_| "ok").map_err(|e| e.to_string().chars().take(120).collect::<String>()))]));
                        continue;
                    }
                    // the caller sees the module's verdict
                    // at depth 2 the outer contract dispatches the inner one with reply_always: the failure is caught there
                    let caught = failing && (origin == 2 || origin == 3);
                    match (&res, failing && !caught) {
                        (Ok(_), false) | (Err(_), true) => {}
                        _ => {
                            violations.push(json!([format!("{}-message-verdict-differs-in-a-reduced-feature-build", name), format!("{}: result {:?}", cell, res.as_ref().map(|_| "ok").map_err(|e| e.to_string().chars().take(120).collect::<String>()))]));
                            continue;
                        }
                    }
                    if let Ok(r) = &res {
                        if origin == 0 && !failing && r.data.as_ref().map(|d| d.as_slice().to_vec()) != Some(if name == "any" { b"any".to_vec() } else { module.as_bytes().to_vec() }) {
                            violations.push(json!([format!("{}-message-answer-lost-in-a-reduced-feature-build", name), format!("{}: data {:?}", cell, r.data)]));
                        }
                        if origin == 2 {
                            let replied: Vec<String> = r.events.iter().flat_map(|e| e.attributes.iter()).filter(|a| a.key == "replied").map(|a| a.value.clone()).collect();
                            let want = if failing { vec!["200:err".to_string()] } else { vec![format!("100:ok:{}", if name == "any" { "any" } else { module })] };
                            if replied != want {
                                violations.push(json!([format!("{}-message-reply-differs-in-a-reduced-feature-build", name), format!("{}: replies {:?}, expected {:?}", cell, replied, want)]));
                            }
                        }
                    }
                    let after = dump(&w.app);
                    if res.is_err() && after != before {
                        violations.push(json!([format!("{}-message-failed-but-left-state-in-a-reduced-feature-build", name), cell.clone()]));
                    }
                    if caught {
                        // only the failing module's marker is gone
                        let extra: Vec<&(Vec<u8>, Vec<u8>)> = after.iter().filter(|e| !before.contains(e)).collect();
                        if extra.iter().any(|(k, _)| k.starts_with(b"\x00\x03rec")) {
                            violations.push(json!([format!("{}-message-caught-failure-kept-the-module-writes-in-a-reduced-feature-build", name), cell.clone()]));
                        }
                    }
                    if res.is_ok() && !caught && !after.iter().any(|(k, _)| *k == marker_key(module, before_log + 1)) {
                        violations.push(json!([format!("{}-message-module-writes-lost-in-a-reduced-feature-build", name), cell]));
                    }
                }
            }
            for (name, module, _q, _p, _a) in query_kinds(n) {
                for origin in 0..3u8 {
                    n += 1;
                    let (_, _, q, payload, answer) = query_kinds(n).into_iter().find(|k| k.0 == name).unwrap();
                    cells += 1;
                    {
                        let mut f = w.hub.failing.borrow_mut();
                        f.clear();
                        if failing {
                            f.insert(module);
                        }
                    }
                    let before_log = w.hub.log.borrow().len();
                    let cell = format!("build [{}]: {} query, origin {}, module {} {}", feats, name, ["top level", "query entry point of a contract", "execute entry point of a contract"][origin as usize], module, if failing { "failing" } else { "accepting" });
                    let got: Result<String, ()> = std::panic::catch_unwind(std::panic::AssertUnwindSafe(|| match origin {
                        0 => match w.app.raw_query(&to_json_vec(&q).unwrap()) {
                            SystemResult::Ok(ContractResult::Ok(b)) => format!("ok:{}", String::from_utf8_lossy(b.as_slice())),
                            _ => "err".to_string(),
                        },
                        1 => match w.app.raw_query(&to_json_vec(&QueryRequest::<Empty>::Wasm(cosmwasm_std::WasmQuery::Smart { contract_addr: w.c1.to_string(), msg: to_json_binary(&q).unwrap() })).unwrap()) {
                            SystemResult::Ok(ContractResult::Ok(b)) => String::from_utf8_lossy(b.as_slice()).to_string(),
                            _ => "err".to_string(),
                        },
                        _ => {
                            let user = w.user.clone();
                            match w.app.execute(user, WasmMsg::Execute { contract_addr: w.c1.to_string(), msg: to_json_binary(&Fwd { msgs: vec![], mode: 0, queries: vec![q.clone()] }).unwrap(), funds: vec![] }.into()) {
                                Ok(r) => r.events.iter().flat_map(|e| e.attributes.iter()).filter(|a| a.key == "q0").map(|a| a.value.clone()).collect::<Vec<_>>().join("|"),
                                Err(e) => format!("tx failed: {}", e),
                            }
                        }
                    }))
                    .map_err(|_| ());
                    let got = match got {
                        Ok(g) => g,
                        Err(_) => {
                            violations.push(json!([format!("{}-query-panics-in-a-reduced-feature-build", name), cell]));
                            w = world();
                            continue;
                        }
                    };
                    let new: Vec<LogEntry> = w.hub.log.borrow()[before_log..].to_vec();
                    let want = LogEntry { module, kind: "query", sender: None, payload };
                    entries += new.len() as u64;
                    if new != vec![want.clone()] {
                        violations.push(json!([format!("{}-query-not-delivered-once-to-its-module-in-a-reduced-feature-build", name), format!("{}: log {:?}, expected [{:?}]; answer {}", cell, new, want, got.chars().take(160).collect::<String>())]));
                        continue;
                    }
                    let ok = if failing { !got.contains(&format!("ok:{}", answer)) } else { got == format!("ok:{}", answer) };
                    if !ok {
                        violations.push(json!([format!("{}-query-answer-differs-in-a-reduced-feature-build", name), format!("{}: answer {}", cell, got.chars().take(160).collect::<String>())]));
                    }
                }
            }
        }
        #[cfg(feature = "staking")]
        {
            cells += 1;
            w.hub.failing.borrow_mut().clear();
            let before_log = w.hub.log.borrow().len();
            let s = cw_multi_test::StakingSudo::Slash { validator: "val".into(), percentage: cosmwasm_std::Decimal::percent(5) };
            let want = LogEntry { module: "staking", kind: "sudo", sender: None, payload: format!("{:?}", s) };
            let r = w.app.sudo(cw_multi_test::SudoMsg::Staking(s));
            let new: Vec<LogEntry> = w.hub.log.borrow()[before_log..].to_vec();
            entries += new.len() as u64;
            if new != vec![want] || r.is_err() {
                violations.push(json!(["staking-sudo-not-delivered-once-to-its-module-in-a-reduced-feature-build", format!("build [{}]: log {:?}", feats, new)]));
            }
        }
    }
    println!("{}", json!({"features": feats, "cells": cells, "log_entries_checked": entries, "kinds": kinds, "violations": violations}));
}
