//! vcheck-c20-min — the ContractWrapper half of property C20 on builds of cw-multi-test with its DEFAULT
//! feature set (no staking / stargate / cosmwasm_1_x) and with other reduced feature sets (this crate's features map
//! one-to-one onto cw-multi-test's). Started by vcheck-c20; prints one JSON document:
//! {"chains": n, "slots_checked": n, "violations": [[signature, detail, chain], ...]}.

use cosmwasm_std::testing::{mock_dependencies, mock_env};
use cosmwasm_std::{
    coin, Addr, BankMsg, Binary, Checksum, Deps, DepsMut, Empty, Env, Event, MessageInfo, Reply, ReplyOn, Response, StdError, StdResult, SubMsg, SubMsgResponse,
    SubMsgResult, WasmMsg,
};
use cw_multi_test::error::AnyResult;
use cw_multi_test::{Contract, ContractWrapper};
use serde_json::json;

pub struct Rt {
    pub seed: u64,
}

impl Rt {
    /// The checksum handed to `with_checksum`: boundary values rotate with the seed (all zero, all ones, one).
    pub fn checksum(&self) -> Checksum {
        match self.seed % 4 {
            1 => Checksum::from([0u8; 32]),
            2 => Checksum::from([0xFFu8; 32]),
            3 => {
                let mut b = [0u8; 32];
                b[31] = 1;
                Checksum::from(b)
            }
            _ => Checksum::generate(format!("wrapper-{}", self.seed).as_bytes()),
        }
    }
    pub fn decoy_checksum(&self) -> Checksum {
        Checksum::generate(format!("decoy-{}", self.seed).as_bytes())
    }
}

/// What every wrapped entry point returns (messages of the kinds available without optional features).
fn rich(name: &str) -> Response {
    let mut sub = SubMsg::reply_always(BankMsg::Send { to_address: "to".into(), amount: vec![coin(3, "ua"), coin(0, "ub")] }, 7).with_gas_limit(12_345).with_payload(Binary::from(b"payload".to_vec()));
    sub.reply_on = ReplyOn::Always;
    let r = Response::new()
        .add_attribute("entry", name)
        .add_attribute("second", "")
        .add_event(Event::new("ev").add_attribute("k", "v"))
        // an event without attributes, an event whose attribute has an empty value, an event of the shortest type
        .add_event(Event::new("bare"))
        .add_event(Event::new("half").add_attribute("k", ""))
        .add_event(Event::new("zz").add_attribute("a", "1").add_attribute("a", "1"))
        .set_data(format!("data-{}", name).into_bytes())
        .add_submessage(sub)
        .add_submessage(SubMsg::reply_on_error(WasmMsg::Execute { contract_addr: "c".into(), msg: Binary::from(b"{}".to_vec()), funds: vec![coin(1, "ua")] }, u64::MAX).with_gas_limit(1))
        .add_message(BankMsg::Burn { amount: vec![coin(2, "ub")] })
        .add_message(WasmMsg::ClearAdmin { contract_addr: "x".into() });
    // the message kinds that exist only with some features of the build
    #[cfg(feature = "staking")]
    let r = r
        .add_message(cosmwasm_std::StakingMsg::Delegate { validator: "val".into(), amount: coin(5, "ustake") })
        .add_submessage(SubMsg::reply_on_success(cosmwasm_std::DistributionMsg::WithdrawDelegatorReward { validator: "val".into() }, 9));
    #[cfg(feature = "stargate")]
    #[allow(deprecated)]
    let r = r
        .add_message(cosmwasm_std::IbcMsg::CloseChannel { channel_id: "channel-7".into() })
        .add_message(cosmwasm_std::GovMsg::Vote { proposal_id: 3, option: cosmwasm_std::VoteOption::Abstain })
        .add_submessage(SubMsg::reply_always(cosmwasm_std::CosmosMsg::Stargate { type_url: "/t".into(), value: Binary::from(vec![1u8, 2]) }, 10));
    #[cfg(feature = "cosmwasm_2_0")]
    let r = r.add_message(cosmwasm_std::CosmosMsg::Any(cosmwasm_std::AnyMsg { type_url: "/a".into(), value: Binary::from(vec![3u8]) }));
    r.add_messages(every_other_variant())
}

/// One message of every remaining variant (of those this build has) of every message enum.
#[allow(unused_mut, deprecated)]
fn every_other_variant() -> Vec<cosmwasm_std::CosmosMsg> {
    let mut v: Vec<cosmwasm_std::CosmosMsg> = vec![
        WasmMsg::Instantiate { admin: Some("adm".into()), code_id: 7, msg: Binary::from(b"{}".to_vec()), funds: vec![coin(1, "ua")], label: "l".into() }.into(),
        WasmMsg::Migrate { contract_addr: "c".into(), new_code_id: 9, msg: Binary::from(b"{}".to_vec()) }.into(),
        WasmMsg::UpdateAdmin { contract_addr: "c".into(), admin: "a2".into() }.into(),
        WasmMsg::Execute { contract_addr: "c2".into(), msg: Binary::default(), funds: vec![] }.into(),
        BankMsg::Send { to_address: "t2".into(), amount: vec![] }.into(),
    ];
    #[cfg(feature = "cosmwasm_1_2")]
    v.push(WasmMsg::Instantiate2 { admin: None, code_id: 8, label: "l2".into(), msg: Binary::from(b"{}".to_vec()), funds: vec![], salt: Binary::from(vec![9u8; 3]) }.into());
    #[cfg(feature = "staking")]
    {
        v.push(cosmwasm_std::StakingMsg::Undelegate { validator: "v".into(), amount: coin(4, "ua") }.into());
        v.push(cosmwasm_std::StakingMsg::Redelegate { src_validator: "v".into(), dst_validator: "v2".into(), amount: coin(3, "ua") }.into());
        v.push(cosmwasm_std::DistributionMsg::SetWithdrawAddress { address: "w".into() }.into());
    }
    #[cfg(all(feature = "staking", feature = "cosmwasm_1_4"))]
    v.push(cosmwasm_std::DistributionMsg::FundCommunityPool { amount: vec![coin(1, "ua")] }.into());
    #[cfg(feature = "stargate")]
    {
        use cosmwasm_std::{IbcMsg, IbcTimeout, Timestamp};
        v.push(IbcMsg::Transfer { channel_id: "channel-1".into(), to_address: "remote".into(), amount: coin(5, "ua"), timeout: IbcTimeout::with_timestamp(Timestamp::from_seconds(99)), memo: Some("m".into()) }.into());
        v.push(IbcMsg::SendPacket { channel_id: "channel-2".into(), data: Binary::from(vec![1u8]), timeout: IbcTimeout::with_timestamp(Timestamp::from_seconds(100)) }.into());
    }
    #[cfg(all(feature = "stargate", feature = "cosmwasm_1_4"))]
    {
        use cosmwasm_std::{Decimal, VoteOption, WeightedVoteOption};
        v.push(cosmwasm_std::GovMsg::VoteWeighted { proposal_id: 4, options: vec![WeightedVoteOption { option: VoteOption::Yes, weight: Decimal::percent(60) }, WeightedVoteOption { option: VoteOption::Abstain, weight: Decimal::percent(40) }] }.into());
    }
    v
}

fn w_execute(_d: DepsMut, e: Env, _i: MessageInfo, _m: Empty) -> StdResult<Response> {
    if e.block.height == 999 {
        return Err(StdError::generic_err("probe error of w_execute"));
    }
    Ok(rich("execute"))
}
fn w_instantiate(_d: DepsMut, e: Env, _i: MessageInfo, _m: Empty) -> StdResult<Response> {
    if e.block.height == 999 {
        return Err(StdError::generic_err("probe error of w_instantiate"));
    }
    Ok(rich("instantiate"))
}
fn w_query(_d: Deps, e: Env, _m: Empty) -> StdResult<Binary> {
    if e.block.height == 999 {
        return Err(StdError::generic_err("probe error of w_query"));
    }
    Ok(Binary::from(b"query".to_vec()))
}
fn w_sudo(_d: DepsMut, e: Env, _m: Empty) -> StdResult<Response> {
    if e.block.height == 999 {
        return Err(StdError::generic_err("probe error of w_sudo"));
    }
    Ok(rich("sudo"))
}
fn w_sudo_e(_d: DepsMut, e: Env, _m: Empty) -> StdResult<Response> {
    if e.block.height == 999 {
        return Err(StdError::generic_err("probe error of w_sudo_e"));
    }
    Ok(rich("sudo_empty"))
}
fn w_reply(_d: DepsMut, e: Env, _m: Reply) -> StdResult<Response> {
    if e.block.height == 999 {
        return Err(StdError::generic_err("probe error of w_reply"));
    }
    Ok(rich("reply"))
}
fn w_reply_e(_d: DepsMut, e: Env, _m: Reply) -> StdResult<Response> {
    if e.block.height == 999 {
        return Err(StdError::generic_err("probe error of w_reply_e"));
    }
    Ok(rich("reply_empty"))
}
fn w_migrate(_d: DepsMut, e: Env, _m: Empty) -> Result<Response, StdError> {
    if e.block.height == 999 {
        return Err(StdError::generic_err("probe error of w_migrate"));
    }
    Ok(rich("migrate"))
}
fn w_migrate_e(_d: DepsMut, e: Env, _m: Empty) -> Result<Response, StdError> {
    if e.block.height == 999 {
        return Err(StdError::generic_err("probe error of w_migrate_e"));
    }
    Ok(rich("migrate_empty"))
}

pub fn probe_wrapper(c: Box<dyn Contract<Empty, Empty>>, _rt: &Rt) -> Vec<String> {
    let mut deps = mock_dependencies();
    let env = mock_env();
    let info = MessageInfo { sender: Addr::unchecked("s"), funds: vec![] };
    let altered: std::cell::RefCell<Vec<String>> = Default::default();
    let attr = |r: AnyResult<Response>| match r {
        Ok(r) => {
            let name = r.attributes.first().map(|a| a.value.clone()).unwrap_or_else(|| "ok".into());
            if format!("{:?}", r) != format!("{:?}", rich(&name)) {
                altered.borrow_mut().push(format!("{} returns {:?} instead of {:?}", name, r, rich(&name)));
            }
            name
        }
        Err(_) => "absent".into(),
    };
    #[allow(deprecated)]
    let reply_with = |id: u64, ok: bool| Reply {
        id,
        payload: if id % 2 == 0 { Binary::default() } else { Binary::from(b"payload".to_vec()) },
        gas_used: 0,
        result: if ok { SubMsgResult::Ok(SubMsgResponse { events: vec![], data: None, msg_responses: vec![] }) } else { SubMsgResult::Err("failed".into()) },
    };
    let mut reply_names: Vec<String> = [(0u64, true), (1, true), (u64::MAX, false), (0, false)].iter().map(|(id, ok)| attr(c.reply(deps.as_mut(), env.clone(), reply_with(*id, *ok)))).collect();
    reply_names.dedup();
    let reply_line = if reply_names.len() == 1 { reply_names[0].clone() } else { format!("differs between replies: {:?}", reply_names) };
    let mut out = vec![
        format!("execute: {}", attr(c.execute(deps.as_mut(), env.clone(), info.clone(), b"{}".to_vec()))),
        format!("instantiate: {}", attr(c.instantiate(deps.as_mut(), env.clone(), info, b"{}".to_vec()))),
        format!("query: {}", c.query(deps.as_ref(), env.clone(), b"{}".to_vec()).map(|b| String::from_utf8_lossy(&b).to_string()).unwrap_or_else(|_| "err".into())),
        format!("sudo: {}", attr(c.sudo(deps.as_mut(), env.clone(), b"{}".to_vec()))),
        format!("reply: {}", reply_line),
        format!("migrate: {}", attr(c.migrate(deps.as_mut(), env, b"{}".to_vec()))),
        format!("checksum: {}", c.checksum().map(|c| c.to_hex()).unwrap_or_else(|| "none".into())),
    ];
    let altered = altered.into_inner();
    out.push(if altered.is_empty() { "responses: intact".to_string() } else { format!("responses: {}", altered.join("; ")) });
    // the error a supplied function returns arrives as that error, still of its own type (tests downcast it)
    let mut env9 = mock_env();
    env9.block.height = 999;
    let info9 = MessageInfo { sender: Addr::unchecked("s"), funds: vec![] };
    fn kind<T>(r: AnyResult<T>) -> String {
        match r {
            Ok(_) => "no-error".into(),
            Err(e) => match e.downcast_ref::<StdError>() {
                Some(StdError::GenericErr { msg, .. }) if msg.starts_with("probe error of w_") => format!("typed({})", msg.trim_start_matches("probe error of w_")),
                _ => "untyped".into(),
            },
        }
    }
    out.push(format!(
        "errors: execute={} instantiate={} query={} sudo={} reply={} migrate={}",
        kind(c.execute(deps.as_mut(), env9.clone(), info9.clone(), b"{}".to_vec())),
        kind(c.instantiate(deps.as_mut(), env9.clone(), info9, b"{}".to_vec())),
        kind(c.query(deps.as_ref(), env9.clone(), b"{}".to_vec())),
        kind(c.sudo(deps.as_mut(), env9.clone(), b"{}".to_vec())),
        kind(c.reply(deps.as_mut(), env9.clone(), reply_with(3, true))),
        kind(c.migrate(deps.as_mut(), env9, b"{}".to_vec()))
    ));
    out
}

include!("wrapper_perms.rs");

fn main() {
    let seeds: Vec<u64> = std::env::args().skip(1).filter_map(|s| s.parse().ok()).collect();
    let mut violations = vec![];
    let (mut chains, mut slots, mut twice) = (0u64, 0u64, 0u64);
    std::panic::set_hook(Box::new(|_| {}));
    for s in seeds {
        let rt = Rt { seed: s };
        let wchains = match std::panic::catch_unwind(|| wrapper_chains(&rt)) {
            Ok(c) => c,
            Err(_) => {
                violations.push(json!(["wrapper-chain-panics", format!("seed {}", s), []]));
                continue;
            }
        };
        for (steps, t) in &wchains {
            chains += 1;
            let has = |n: &str| steps.iter().rev().find(|s| **s == n || **s == format!("{}_empty", n)).copied();
            let last_checksum = steps.iter().rev().find(|s| s.starts_with("checksum")).copied();
            if steps.iter().filter(|s| s.starts_with("checksum")).count() > 1 || ["sudo", "reply", "migrate"].iter().any(|n| steps.iter().filter(|s| s.starts_with(n)).count() > 1) {
                twice += 1;
            }
            let want = vec![
                "execute: execute".to_string(),
                "instantiate: instantiate".to_string(),
                "query: query".to_string(),
                format!("sudo: {}", has("sudo").unwrap_or("absent")),
                format!("reply: {}", has("reply").unwrap_or("absent")),
                format!("migrate: {}", has("migrate").unwrap_or("absent")),
                format!("checksum: {}", match last_checksum { Some("checksum") => rt.checksum().to_hex(), Some(_) => rt.decoy_checksum().to_hex(), None => "none".into() }),
                "responses: intact".to_string(),
                format!(
                    "errors: execute=typed(execute) instantiate=typed(instantiate) query=typed(query) sudo={} reply={} migrate={}",
                    has("sudo").map(|n| format!("typed({})", n.replace("_empty", "_e"))).unwrap_or_else(|| "untyped".into()),
                    has("reply").map(|n| format!("typed({})", n.replace("_empty", "_e"))).unwrap_or_else(|| "untyped".into()),
                    has("migrate").map(|n| format!("typed({})", n.replace("_empty", "_e"))).unwrap_or_else(|| "untyped".into())
                ),
            ];
            for (g, w) in t.iter().zip(want.iter()) {
                slots += 1;
                if g != w {
                    let slot = w.split(':').next().unwrap_or("");
                    let sig = if slot == "checksum" { "wrapper-checksum-lost-in-a-minimal-features-build".to_string() } else if slot == "responses" { "wrapper-alters-the-response-of-an-entry-point".to_string() } else if slot == "errors" { "wrapper-alters-the-error-of-an-entry-point".to_string() } else { format!("wrapper-{}-entry-point-lost", slot) };
                    violations.push(json!([sig, format!("reduced-features build, chain {:?}: [{}], expected [{}]", steps, g.chars().take(300).collect::<String>(), w), steps]));
                }
            }
        }
    }
    println!("{}", json!({"chains": chains, "slots_checked": slots, "chains_with_a_step_given_twice": twice, "violations": violations}));
}
